"""Engine C: statement-level control-flow graph of one function, with queries.

Nodes are simple statements and the heads of compound statements (If/While/For
test, With header, ExceptHandler entry).  Edges carry a label: None (fall
through), 'T'/'F' (branch outcome), 'exc' (an exception raised at the source
node travels to the innermost enclosing handler dispatch or to the exceptional
exit).  There are two exits: EXIT (normal return / falling off the end) and
RAISE (an exception leaves the function).  `yield` inside a generator
(inlineCallbacks) is a point where an exception may arrive, like any call.

Queries: reachability with avoided nodes/edges, must-pass-through, guard
dominance, ordering.
"""
import ast
import collections

from .astutil import walk_shallow


class CFG:
    def __init__(self, fn, split=False):
        """split: short-circuit tests (`a and b`, `a or b`, `not (..)` around them) of If/While get one ("COND", expr, stmt)
        node per operand, so that `if a and b: X` and `if a: if b: X` have the same graph.  The If/While head then has a
        single unlabelled edge to the first operand; use the polarity-independent queries (cond_edges, only_when, ..)."""
        self.fn = fn
        self.split = split
        self.stmt = {}
        self.succ = collections.defaultdict(set)
        self.pred = collections.defaultdict(set)
        self.n = 0
        self.entry = self._new("ENTRY")
        self.exit = self._new("EXIT")
        self.raise_exit = self._new("RAISE")
        ends = self._block(fn.body, [(self.entry, None)], None, [], [])
        for (n, lab) in ends:
            self._edge(n, self.exit, lab)

    # -- construction -----------------------------------------------------
    def _new(self, s):
        self.n += 1
        self.stmt[self.n] = s
        return self.n

    def _edge(self, a, b, lab=None):
        self.succ[a].add((b, lab))
        self.pred[b].add((a, lab))

    def _link(self, preds, node):
        for (p, lab) in preds:
            self._edge(p, node, lab)

    @staticmethod
    def _may_raise(node):
        # calls, yields (an errback may arrive) and subscripts (KeyError/IndexError) are the
        # raising operations this code base relies on; attribute access and arithmetic are not
        # treated as raising (documented imprecision, DESIGN.md 2.3)
        for n in walk_shallow(node):
            if isinstance(n, (ast.Call, ast.Yield, ast.YieldFrom, ast.Await, ast.Subscript)):
                return True
        return False

    def _exc(self, node, handlers):
        tgt = handlers[-1] if handlers else self.raise_exit
        self._edge(node, tgt, 'exc')

    def _block(self, stmts, preds, loop, handlers, finals):
        for s in stmts:
            preds = self._statement(s, preds, loop, handlers, finals)
        return preds

    def _run_finals(self, preds, finals, upto=0, loop=None, handlers=None):
        """duplicate pending finally bodies (innermost first) for an abrupt exit"""
        for (fb, fl, fh, ff) in reversed(finals[upto:]):
            preds = self._block(fb, preds, fl, fh, ff)
        return preds

    @staticmethod
    def _is_compound_test(e):
        while isinstance(e, ast.UnaryOp) and isinstance(e.op, ast.Not):
            e = e.operand
        return isinstance(e, ast.BoolOp)

    def _cond(self, e, preds, handlers, owner):
        """short-circuit evaluation of a test: -> (ends on which it is true, ends on which it is false)"""
        if isinstance(e, ast.BoolOp):
            is_and = isinstance(e.op, ast.And)
            cont, other = preds, []
            for v in e.values:
                t, f = self._cond(v, cont, handlers, owner)
                if is_and:
                    cont, other = t, other + f
                else:
                    cont, other = f, other + t
            return (cont, other) if is_and else (other, cont)
        if isinstance(e, ast.UnaryOp) and isinstance(e.op, ast.Not) and self._is_compound_test(e.operand):
            t, f = self._cond(e.operand, preds, handlers, owner)
            return f, t
        if isinstance(e, ast.Constant) and isinstance(e.value, (bool, int, str, bytes, type(None))):
            return (preds, []) if e.value else ([], preds)     # `while True and ..`
        n = self._new(("COND", e, owner))
        self._link(preds, n)
        if self._may_raise(e):
            self._exc(n, handlers)
        return [(n, 'T')], [(n, 'F')]

    def _statement(self, s, preds, loop, handlers, finals):
        if isinstance(s, ast.If):
            t = self._new(s)
            self._link(preds, t)
            if self.split and self._is_compound_test(s.test):
                tends, fends = self._cond(s.test, [(t, None)], handlers, s)
            else:
                if self._may_raise(s.test):
                    self._exc(t, handlers)
                tends, fends = [(t, 'T')], [(t, 'F')]
            a = self._block(s.body, tends, loop, handlers, finals)
            b = self._block(s.orelse, fends, loop, handlers, finals) if s.orelse else fends
            return a + b
        if isinstance(s, (ast.For, ast.AsyncFor, ast.While)):
            h = self._new(s)
            self._link(preds, h)
            if self.split and isinstance(s, ast.While) and self._is_compound_test(s.test):
                tends, fends = self._cond(s.test, [(h, None)], handlers, s)
            else:
                if self._may_raise(s.iter if not isinstance(s, ast.While) else s.test):
                    self._exc(h, handlers)
                tends, fends = [(h, 'T')], [(h, 'F')]
            brk = []
            body_end = self._block(s.body, tends, (h, brk, len(finals)), handlers, finals)
            self._link(body_end, h)
            infinite = isinstance(s, ast.While) and isinstance(s.test, ast.Constant) and s.test.value is True
            out = [] if infinite else fends
            if s.orelse:
                out = self._block(s.orelse, out, loop, handlers, finals)
            return out + brk
        if isinstance(s, ast.Return):
            r = self._new(s)
            self._link(preds, r)
            if s.value is not None and self._may_raise(s.value):
                self._exc(r, handlers)
            ends = self._run_finals([(r, None)], finals)
            for (n, lab) in ends:
                self._edge(n, self.exit, lab)
            return []
        if isinstance(s, ast.Raise):
            r = self._new(s)
            self._link(preds, r)
            self._exc(r, handlers)
            return []
        if isinstance(s, ast.Break):
            b = self._new(s)
            self._link(preds, b)
            ends = self._run_finals([(b, None)], finals, loop[2])
            loop[1].extend(ends)
            return []
        if isinstance(s, ast.Continue):
            c = self._new(s)
            self._link(preds, c)
            ends = self._run_finals([(c, None)], finals, loop[2])
            self._link(ends, loop[0])
            return []
        if isinstance(s, (ast.With, ast.AsyncWith)):
            w = self._new(s)
            self._link(preds, w)
            self._exc(w, handlers)
            return self._block(s.body, [(w, None)], loop, handlers, finals)
        if isinstance(s, ast.Try):
            outer_h, outer_f = handlers, finals
            if s.finalbody:
                # exceptional path through finally: a dispatch node that runs the finally body and re-raises
                fdisp = self._new(("FINALLY-EXC", s))
                fin_ends = self._block(s.finalbody, [(fdisp, None)], loop, outer_h, outer_f)
                for (n, lab) in fin_ends:
                    self._edge(n, outer_h[-1] if outer_h else self.raise_exit, 'exc')
                inner_outer_h = outer_h + [fdisp]
                inner_f = outer_f + [(s.finalbody, loop, outer_h, outer_f)]
            else:
                inner_outer_h = outer_h
                inner_f = outer_f
            after = []
            if s.handlers:
                d = self._new(("DISPATCH", s))
                body_end = self._block(s.body, preds, loop, inner_outer_h + [d], inner_f)
                caught_all = False
                for h in s.handlers:
                    hn = self._new(h)
                    self._edge(d, hn, 'exc')
                    after += self._block(h.body, [(hn, None)], loop, inner_outer_h, inner_f)
                    if h.type is None or (isinstance(h.type, ast.Name) and h.type.id in ("Exception", "BaseException")):
                        caught_all = True
                        break
                if not caught_all:
                    self._edge(d, inner_outer_h[-1] if inner_outer_h else self.raise_exit, 'exc')
            else:
                body_end = self._block(s.body, preds, loop, inner_outer_h, inner_f)
            if s.orelse:
                body_end = self._block(s.orelse, body_end, loop, inner_outer_h, inner_f)
            after += body_end
            if s.finalbody:
                after = self._block(s.finalbody, after, loop, outer_h, outer_f)
            return after
        if isinstance(s, (ast.FunctionDef, ast.AsyncFunctionDef, ast.ClassDef)):
            n = self._new(s)
            self._link(preds, n)
            return [(n, None)]
        if isinstance(s, ast.Match):
            raise NotImplementedError("match statement")
        n = self._new(s)
        self._link(preds, n)
        if isinstance(s, ast.Assert) or self._may_raise(s):
            self._exc(n, handlers)
        return [(n, None)]

    # -- queries ------------------------------------------------------------
    def reach(self, starts, avoid_nodes=(), avoid_edges=(), include_start=True, explicit_only=False):
        """nodes reachable from starts.  explicit_only: follow 'exc' edges only out of explicit
        `raise` statements (and out of dispatch/finally pseudo nodes), i.e. assume calls do not raise."""
        if isinstance(starts, int):
            starts = [starts]
        avoid_nodes = set(avoid_nodes)
        seen = set()
        work = []
        for st in starts:
            if st in avoid_nodes:
                continue
            if include_start:
                seen.add(st)
            work.append(st)
        first = set(work)
        while work:
            x = work.pop()
            for (y, lab) in self.succ[x]:
                if y in avoid_nodes or (x, y, lab) in avoid_edges:
                    continue
                if explicit_only and lab == 'exc' and _is_code(self.stmt[x]) \
                        and not isinstance(self.stmt[x], ast.Raise):
                    continue
                if y not in seen:
                    seen.add(y)
                    work.append(y)
        return seen

    def nodes(self, pred=None):
        return [n for n, s in self.stmt.items() if isinstance(s, ast.AST) and (pred is None or pred(s))]

    def node_of(self, stmt):
        for n, s in self.stmt.items():
            if s is stmt:
                return n
        return None

    def head_expr(self, n):
        """the expression evaluated AT node n (test of If/While, iter of For, items of With, else the statement)"""
        s = self.stmt[n]
        if isinstance(s, tuple) and s[0] == "COND":
            return [s[1]]
        if isinstance(s, (ast.If, ast.While)):
            return [] if (self.split and self._is_compound_test(s.test)) else [s.test]
        if isinstance(s, (ast.For, ast.AsyncFor)):
            return [s.iter]
        if isinstance(s, (ast.With, ast.AsyncWith)):
            return [i.context_expr for i in s.items]
        if isinstance(s, ast.ExceptHandler):
            return []
        if isinstance(s, (ast.FunctionDef, ast.AsyncFunctionDef, ast.ClassDef)):
            return []
        if isinstance(s, ast.AST):
            return [s]
        return []

    def nodes_evaluating(self, pred):
        """nodes whose own (head) expression contains an ast node satisfying pred"""
        out = []
        for n in self.stmt:
            for e in self.head_expr(n):
                if any(pred(x) for x in walk_shallow(e)):
                    out.append(n)
                    break
        return out

    def call_nodes(self, match):
        """nodes evaluating a Call c with match(c) true"""
        return self.nodes_evaluating(lambda x: isinstance(x, ast.Call) and match(x))

    def can_exit_normally_avoiding(self, avoid, start=None):
        return self.exit in self.reach(start or self.entry, avoid_nodes=avoid)

    def must_pass(self, through, start=None, to=None, explicit_only=False):
        """every path start -> to (default: normal EXIT) passes a node in `through`"""
        to = self.exit if to is None else to
        r = self.reach(start or self.entry, avoid_nodes=through, explicit_only=explicit_only)
        if isinstance(to, int):
            return to not in r
        return not (set(to) & r)

    def branch_targets(self, if_node, label):
        return [y for (y, lab) in self.succ[if_node] if lab == label]

    def branch_never_reaches(self, if_node, label, targets):
        """no path leaving if_node through `label` reaches any of targets"""
        st = self.branch_targets(if_node, label)
        if not st:
            return True
        r = self.reach(st)
        return not (set(targets) & r)

    def branch_always_raises(self, if_node, label):
        """paths leaving if_node by `label` never reach the normal EXIT"""
        return self.branch_never_reaches(if_node, label, [self.exit])

    def guarded_by(self, guards, targets, pass_label):
        """every path ENTRY -> target passes some guard node through its `pass_label` edge
        (guards: list of If nodes; removing all pass_label edges of the guards makes targets unreachable)"""
        avoid = set()
        for g in guards:
            for (y, lab) in self.succ[g]:
                if lab == pass_label:
                    avoid.add((g, y, lab))
        r = self.reach(self.entry, avoid_edges=avoid)
        return [t for t in targets if t in r]

    def reach_feasible_via(self, via, avoid_nodes=(), explicit_only=False):
        """nodes reachable from ENTRY on a feasible path AFTER the path has passed one of the nodes `via`"""
        via = set(via)
        return {n for (n, tag) in self._feasible([(self.entry, frozenset())], set(avoid_nodes), (), explicit_only, via) if tag}

    def reach_feasible(self, starts, avoid_nodes=(), avoid_edges=(), explicit_only=False):
        if isinstance(starts, int):
            starts = [starts]
        return {n for (n, tag) in self._feasible([(st, frozenset()) for st in starts if st not in set(avoid_nodes)],
                                                 set(avoid_nodes), avoid_edges, explicit_only, None)}

    def _learn(self, test_e, lab, f2):
        """what taking the `lab` edge of a test establishes about once-bound boolean locals (added to the dict f2), and about
        the conditions registered in self.stable_atoms (conditions over state that nothing run by this function changes:
        the caller vouches for that, e.g. an attribute only the constructor writes)"""
        for kind in ("stable_atoms", "local_atoms"):
            for i, at in enumerate(getattr(self, kind, ())):
                tt, tf = truth_on_branch(self._resolve_flags(test_e), at)
                k = tt if lab == 'T' else tf
                if k is not None and (kind, i) not in f2:
                    f2[(kind, i)] = 'truthy' if k else 'falsy-bool'
        for bn in self._boolnames():
            if bn in f2:
                continue
            isb = (lambda e, bn=bn: isinstance(e, ast.Name) and e.id == bn)
            tt, tf = truth_on_branch(test_e, truthy_atom(isb))
            k = tt if lab == 'T' else tf
            if k is True:
                f2[bn] = 'truthy'
            elif k is False:
                f2[bn] = 'falsy-bool'

    def when_must_pass(self, atom, value, through, to=None, explicit_only=True):
        """on every edge where `atom` is known to be `value`: no feasible path from there to `to` (default: the normal exit)
        avoids all the nodes `through`.  Returns (number of such edges, holds)."""
        to = set(to if to is not None else [self.exit])
        edges = self.cond_edges(atom, value)
        ok = True
        for (x, y, lab) in edges:
            if y in set(through):
                continue
            r = self._reach_from_edge(x, y, lab, explicit_only, avoid_nodes=set(through))
            ok = ok and not (to & r)
        return len(edges), ok

    def _reach_from_edge(self, x, y, lab, explicit_only=False, avoid_nodes=()):
        """nodes feasibly reachable after taking the edge x -(lab)-> y (what that edge establishes about boolean locals is kept)"""
        s = self.stmt[x]
        test_e = s[1] if (isinstance(s, tuple) and s[0] == "COND") else (s.test if isinstance(s, (ast.If, ast.While)) else None)
        f = {}
        if test_e is not None and lab in ('T', 'F'):
            self._learn(test_e, lab, f)
        return {n for (n, tag) in self._feasible([(y, frozenset(f.items()))], set(avoid_nodes), (), explicit_only, None)}

    def _feasible(self, init, avoid_nodes, avoid_edges, explicit_only, via):
        """like reach(), but paths contradicting what is known about local sentinels are dropped: after `x = None`
        (or `x = <constant>`) the branch of a later `if x is None` / `if x` / `if not x` that contradicts it is not
        followed until x is assigned again.  Only plain local names are tracked."""
        seen = set()
        work = [(st, f, False) for (st, f) in init]
        out = set()
        while work:
            x, facts, tag = work.pop()
            if (x, facts, tag) in seen:
                continue
            seen.add((x, facts, tag))
            out.add((x, tag))
            if via is not None and x in via:
                tag = True
            s = self.stmt[x]
            for (y, lab) in self.succ[x]:
                if y in avoid_nodes or (x, y, lab) in avoid_edges:
                    continue
                if explicit_only and lab == 'exc' and _is_code(s) and not isinstance(s, ast.Raise):
                    continue
                f2 = dict(facts)
                test_e = s[1] if (isinstance(s, tuple) and s[0] == "COND") else (s.test if isinstance(s, (ast.If, ast.While)) else None)
                if test_e is not None and lab in ('T', 'F'):
                    dead = False
                    for name, val in facts:
                        if isinstance(name, tuple):
                            tt, tf = truth_on_branch(self._resolve_flags(test_e), getattr(self, name[0])[name[1]])
                            k = tt if lab == 'T' else tf
                            if k is not None and k != (val == 'truthy'):
                                dead = True
                            continue
                        isname = (lambda e, name=name: isinstance(e, ast.Name) and e.id == name)
                        tn, fn_ = truth_on_branch(test_e, none_atom(isname))
                        known_none = tn if lab == 'T' else fn_
                        if known_none is not None and known_none != (val == 'none'):
                            dead = True
                        tt, tf = truth_on_branch(test_e, truthy_atom(isname))
                        known_true = tt if lab == 'T' else tf
                        if known_true is True and val in ('none', 'falsy', 'falsy-bool'):
                            dead = True
                        if known_true is False and val == 'truthy':
                            dead = True
                    if dead:
                        continue
                    # correlated tests on one once-bound boolean local: what this edge establishes about it holds at the next test
                    self._learn(test_e, lab, f2)
                elif isinstance(s, ast.AST) and lab != 'exc':
                    for t in _stored_simple(s):
                        f2.pop(t, None)
                    if any(isinstance(k, tuple) and k[0] == "local_atoms" for k in f2) \
                            and _may_change_self(s, getattr(self, "local_atom_attrs", None)):
                        for k in [k for k in f2 if isinstance(k, tuple) and k[0] == "local_atoms"]:
                            f2.pop(k)
                    if isinstance(s, ast.Assign) and len(s.targets) == 1 and isinstance(s.targets[0], ast.Name) \
                            and isinstance(s.value, ast.Constant):
                        v = s.value.value
                        f2[s.targets[0].id] = 'none' if v is None else ('truthy' if v else 'falsy')
                work.append((y, frozenset(f2.items()), tag))
        return out

    def paths_under(self, oracle, limit=200):
        """Paths ENTRY -> EXIT/RAISE under an oracle for conditions: oracle(test) -> True / False / None (follow both).
        `not` around a test is handled here.  Calls are assumed not to raise (only explicit `raise` leaves exceptionally).
        Returns a list of (nodes, end) with end in ('exit', 'raise')."""
        out = []

        def decide(test):
            neg = False
            while isinstance(test, ast.UnaryOp) and isinstance(test.op, ast.Not):
                neg = not neg
                test = test.operand
            v = oracle(test)
            if v is None:
                return None
            return (not v) if neg else bool(v)

        def walk(x, path, seen):
            if len(out) >= limit:
                return
            if x == self.exit:
                out.append((path, 'exit'))
                return
            if x == self.raise_exit:
                out.append((path, 'raise'))
                return
            s = self.stmt[x]
            test = s[1] if (isinstance(s, tuple) and s[0] == "COND") else (
                s.test if isinstance(s, (ast.If, ast.While)) and not (self.split and self._is_compound_test(s.test)) else None)
            v = decide(test) if test is not None else None
            for (y, lab) in sorted(self.succ[x], key=lambda e: (e[0], str(e[1]))):
                if lab == 'exc' and _is_code(s) and not isinstance(s, ast.Raise):
                    continue
                if test is not None and v is not None and lab in ('T', 'F') and (lab == 'T') != v:
                    continue
                if (x, y) in seen:
                    continue
                walk(y, path + [y], seen | {(x, y)})
        walk(self.entry, [self.entry], frozenset())
        return out

    def path_env(self, nodes, upto=None):
        """local name -> value expression as assigned along the path `nodes` (earlier names substituted), up to node `upto`"""
        import copy
        env = {}

        class Sub(ast.NodeTransformer):
            def visit_Name(self, n):
                if isinstance(n.ctx, ast.Load) and n.id in env:
                    return copy.deepcopy(env[n.id])
                return n
        for x in nodes:
            if x == upto:
                break
            s = self.stmt[x]
            if isinstance(s, ast.Assign) and len(s.targets) == 1:
                t = s.targets[0]
                if isinstance(t, ast.Name):
                    env[t.id] = Sub().visit(copy.deepcopy(s.value))
                elif isinstance(t, ast.Tuple) and isinstance(s.value, ast.Tuple) and len(t.elts) == len(s.value.elts) \
                        and all(isinstance(e, ast.Name) for e in t.elts):
                    vals = [Sub().visit(copy.deepcopy(v)) for v in s.value.elts]
                    for e, v in zip(t.elts, vals):
                        env[e.id] = v
                else:
                    for n in ast.walk(t):
                        if isinstance(n, ast.Name):
                            env.pop(n.id, None)
            elif isinstance(s, ast.AST) and not isinstance(s, (ast.If, ast.While)):
                for name in _stored_simple(s):
                    env.pop(name, None)
        return env

    def subst_env(self, expr, env):
        import copy

        class Sub(ast.NodeTransformer):
            def visit_Name(self, n):
                if isinstance(n.ctx, ast.Load) and n.id in env:
                    return copy.deepcopy(env[n.id])
                return n
        return Sub().visit(copy.deepcopy(expr))

    # -- polarity-independent guards -------------------------------------------
    def cond_edges(self, atom, value):
        """edges (x, y, lab) out of If/While heads on which the atomic condition recognised by `atom` is known to
        have the truth value `value`.  atom(expr) -> True if expr IS the condition, "neg" if expr is its negation,
        None otherwise; `not`, `and`, `or` around it are understood (truth_on_branch)."""
        out = []
        for n, s in self.stmt.items():
            test = None
            if isinstance(s, tuple) and s[0] == "COND":
                test = s[1]
            elif isinstance(s, (ast.If, ast.While)) and not (self.split and self._is_compound_test(s.test)):
                test = s.test
            if test is not None:
                vt, vf = truth_on_branch(test, atom)
                if vt is None and vf is None:
                    vt, vf = truth_on_branch(self._resolve_flags(test), atom)
                for (y, lab) in self.succ[n]:
                    if lab == 'T' and vt is value:
                        out.append((n, y, lab))
                    elif lab == 'F' and vf is value:
                        out.append((n, y, lab))
        return out

    def _boolnames(self):
        """locals bound exactly once, to a boolean-valued expression (comparison, and/or/not of such, isinstance(..), True/False)"""
        if getattr(self, "_boolmap", None) is not None:
            return self._boolmap
        fn = self.fn
        stores = collections.Counter(n.id for n in ast.walk(fn) if isinstance(n, ast.Name) and isinstance(n.ctx, (ast.Store, ast.Del)))

        def boolish(v):
            if isinstance(v, ast.Compare):
                return True
            if isinstance(v, ast.UnaryOp) and isinstance(v.op, ast.Not):
                return True
            if isinstance(v, ast.BoolOp):
                return all(boolish(x) for x in v.values)
            if isinstance(v, ast.Constant) and isinstance(v.value, bool):
                return True
            return isinstance(v, ast.Call) and isinstance(v.func, ast.Name) and v.func.id in ("isinstance", "bool", "callable", "hasattr", "issubclass")
        out = set()
        for a in ast.walk(fn):
            if isinstance(a, ast.Assign) and len(a.targets) == 1 and isinstance(a.targets[0], ast.Name) \
                    and stores[a.targets[0].id] == 1 and boolish(a.value):
                out.add(a.targets[0].id)
        self._boolmap = out
        return out

    def _flags(self):
        """once-bound boolean locals that stand for the test they were bound to: name -> expression.
        `flag = <test>` ... `if flag:` reads like `if <test>:` as long as what the test looks at is not changed in between,
        except by the very action the flag guards: every write to an attribute the test mentions must sit under an `if`
        on that flag, and the names it mentions must be parameters or once-bound locals."""
        if getattr(self, "_flagmap", None) is not None:
            return self._flagmap
        fn = self.fn
        out = {}
        stores = collections.Counter(n.id for n in ast.walk(fn) if isinstance(n, ast.Name) and isinstance(n.ctx, (ast.Store, ast.Del)))
        prm = {a.arg for a in ast.walk(fn.args) if isinstance(a, ast.arg)} if hasattr(fn, "args") else set()
        for a in ast.walk(fn):
            if not (isinstance(a, ast.Assign) and len(a.targets) == 1 and isinstance(a.targets[0], ast.Name)):
                continue
            name, v = a.targets[0].id, a.value
            if stores[name] != 1 or name in prm:
                continue
            if not (isinstance(v, (ast.Compare, ast.BoolOp)) or (isinstance(v, ast.UnaryOp) and isinstance(v.op, ast.Not))):
                continue
            if any(isinstance(x, (ast.Call, ast.Await, ast.Yield, ast.NamedExpr)) for x in ast.walk(v)) and \
                    not all(isinstance(x.func, ast.Name) and x.func.id in ("isinstance", "len", "bool") for x in ast.walk(v) if isinstance(x, ast.Call)):
                continue
            ok = all(x.id in prm or stores[x.id] <= 1 for x in ast.walk(v) if isinstance(x, ast.Name))
            attrs = {ast.dump(x) for x in ast.walk(v) if isinstance(x, ast.Attribute)}
            for w in ast.walk(fn):
                # a write to such an attribute, or a method call on it (self.x.add(..), self.x.pop(..): it may change what the test saw)
                mut = isinstance(w, ast.Attribute) and isinstance(w.ctx, (ast.Store, ast.Del))
                if isinstance(w, ast.Call) and isinstance(w.func, ast.Attribute) and ast.dump(w.func.value) in attrs:
                    mut, w = True, w.func.value
                if mut:
                    d = ast.dump(w).replace("Store()", "Load()").replace("Del()", "Load()")
                    if d in attrs:
                        under = False
                        p = getattr(w, "_parent", None)
                        while p is not None and p is not fn:
                            if isinstance(p, ast.If) and any(isinstance(x, ast.Name) and x.id == name for x in ast.walk(p.test)):
                                under = True
                            p = getattr(p, "_parent", None)
                        ok = ok and under
            if ok:
                out[name] = v
        self._flagmap = out
        return out

    def _resolve_flags(self, test):
        flags = self._flags()
        if not flags or not any(isinstance(x, ast.Name) and x.id in flags for x in ast.walk(test)):
            return test
        import copy

        class Sub(ast.NodeTransformer):
            def visit_Name(self, n):
                if isinstance(n.ctx, ast.Load) and n.id in flags:
                    return copy.deepcopy(flags[n.id])
                return n
        return Sub().visit(copy.deepcopy(test))

    def only_when(self, targets, atom, value, start=None):
        """targets reachable without passing an edge on which atom is known to be `value` (empty: properly guarded)"""
        avoid = set(self.cond_edges(atom, value))
        r = self.reach_feasible(start or self.entry, avoid_edges=avoid)
        return [t for t in targets if t in r]

    def when_never_reaches(self, atom, value, targets, explicit_only=False):
        """(number of edges on which atom is known `value`, targets reachable from one of them)"""
        edges = self.cond_edges(atom, value)
        bad = set()
        for (x, y, lab) in edges:
            r = self._reach_from_edge(x, y, lab, explicit_only)
            bad |= (set(targets) & r)
        return len(edges), sorted(bad)

    def when_always_raises(self, atom, value):
        """atom known `value` on some edge, and no such edge leads to the normal exit"""
        n, bad = self.when_never_reaches(atom, value, [self.exit])
        return n > 0 and not bad

    def precedes(self, a_nodes, b_nodes):
        """every path ENTRY -> some b passes some a first; returns the b nodes reachable without a"""
        r = self.reach_feasible(self.entry, avoid_nodes=set(a_nodes))
        return [b for b in b_nodes if b in r and b not in a_nodes]

    def reaches_after(self, a_nodes, b_nodes):
        """b nodes reachable from (after) some a node"""
        r = set()
        for a in a_nodes:
            r |= self.reach([y for (y, lab) in self.succ[a] if lab != 'exc'])
        return [b for b in b_nodes if b in r]

    def line(self, n):
        s = self.stmt[n]
        if isinstance(s, tuple):
            s = s[1]
        return getattr(s, "lineno", 0)


def _is_code(s):
    return isinstance(s, ast.AST) or (isinstance(s, tuple) and s[0] == "COND")


def _may_change_self(s, attrs=None):
    """could executing the statement change an attribute of self (one of `attrs`, when given)?  (a store to such an
    attribute, or a call on self / through an attribute of self; calls of plain names - constructors, builtins, module
    functions - are taken not to)"""
    tops = [s]
    if isinstance(s, (ast.If, ast.While)):
        tops = [s.test]
    elif isinstance(s, (ast.For, ast.AsyncFor)):
        tops = [s.iter]
    elif isinstance(s, (ast.With, ast.AsyncWith)):
        tops = [i.context_expr for i in s.items]
    elif isinstance(s, (ast.FunctionDef, ast.AsyncFunctionDef, ast.ClassDef, ast.ExceptHandler, ast.Try)):
        return False
    for top in tops:
        for n in ast.walk(top):
            if isinstance(n, ast.Attribute) and isinstance(n.ctx, (ast.Store, ast.Del)) and (attrs is None or n.attr in attrs):
                return True
            if isinstance(n, ast.Call):
                f = n.func
                while isinstance(f, (ast.Attribute, ast.Subscript)):
                    f = f.value
                if not isinstance(f, ast.Name) or f.id == "self" or isinstance(n.func, ast.Attribute):
                    return True
            if isinstance(n, (ast.Await, ast.Yield, ast.YieldFrom)):
                return True
    return False


def _stored_simple(s):
    """local names (re)bound by the simple statement / compound head s"""
    out = set()
    nodes = []
    if isinstance(s, (ast.For, ast.AsyncFor)):
        nodes = [s.target]
    elif isinstance(s, (ast.With, ast.AsyncWith)):
        nodes = [i.optional_vars for i in s.items if i.optional_vars is not None]
    elif isinstance(s, ast.ExceptHandler):
        return {s.name} if s.name else set()
    elif isinstance(s, (ast.If, ast.While, ast.FunctionDef, ast.AsyncFunctionDef, ast.ClassDef)):
        nodes = []
    else:
        nodes = [s]
    for top in nodes:
        for n in ast.walk(top):
            if isinstance(n, ast.Name) and isinstance(n.ctx, (ast.Store, ast.Del)):
                out.add(n.id)
            elif isinstance(n, ast.NamedExpr) and isinstance(n.target, ast.Name):
                out.add(n.target.id)
    return out


def truth_on_branch(test, atom):
    """(value of the atomic condition when `test` is true, value when `test` is false); None = unknown"""
    a = atom(test)
    if a is True:
        return (True, False)
    if a == "neg":
        return (False, True)
    if isinstance(test, ast.UnaryOp) and isinstance(test.op, ast.Not):
        t, f = truth_on_branch(test.operand, atom)
        return (f, t)
    if isinstance(test, ast.BoolOp):
        vals = [truth_on_branch(v, atom) for v in test.values]
        if isinstance(test.op, ast.And):
            ts = [t for (t, f) in vals if t is not None]
            return (ts[0] if ts and all(x is ts[0] for x in ts) else None, None)
        fs = [f for (t, f) in vals if f is not None]
        return (None, fs[0] if fs and all(x is fs[0] for x in fs) else None)
    return (None, None)


def object_atom(pred, fn=None):
    """atom "the object e (pred(e)) is there": e / bool(e) / e is not None; negations not e / e is None.  For attributes that hold
    either None or an object (never an empty container).  With fn, a local alias `x = <e>` (bound once) counts as e."""
    def is_e(x):
        if pred(x):
            return True
        if fn is not None and isinstance(x, ast.Name):
            defs = [n.value for n in ast.walk(fn) if isinstance(n, ast.Assign) and len(n.targets) == 1
                    and isinstance(n.targets[0], ast.Name) and n.targets[0].id == x.id]
            stores = [n for n in ast.walk(fn) if isinstance(n, ast.Name) and n.id == x.id and isinstance(n.ctx, ast.Store)]
            return len(defs) == 1 and len(stores) == 1 and pred(defs[0])
        return False
    t = truthy_atom(is_e)
    n = none_atom(is_e)

    def atom(x):
        a = t(x)
        if a is not None:
            return a
        b = n(x)
        if b is True:
            return "neg"
        if b == "neg":
            return True
        return None
    return atom


def truthy_atom(pred):
    """atom for the truthiness of an expression e with pred(e): `e`, `bool(e)`, `e is not None` (true side only is
    not exact, so only `e` / `not e` / `len(e) > 0`-free forms are accepted) """
    def atom(x):
        if pred(x):
            return True
        if isinstance(x, ast.Call) and isinstance(x.func, ast.Name) and x.func.id == "bool" and len(x.args) == 1 and pred(x.args[0]):
            return True
        return None
    return atom


_MIRROR = {ast.Lt: ast.Gt, ast.Gt: ast.Lt, ast.LtE: ast.GtE, ast.GtE: ast.LtE, ast.Eq: ast.Eq, ast.NotEq: ast.NotEq,
           ast.Is: ast.Is, ast.IsNot: ast.IsNot}


def cmp_atom(left_pred, right_pred, pos_ops=(ast.Eq,), neg_ops=(ast.NotEq,), symmetric=True):
    """atom for a comparison `L op R`; with the operands swapped the mirrored operator counts (a < b  ==  b > a)"""
    def atom(x):
        if isinstance(x, ast.Compare) and len(x.ops) == 1:
            l, r = x.left, x.comparators[0]
            op = type(x.ops[0])
            if left_pred(l) and right_pred(r):
                pass
            elif symmetric and left_pred(r) and right_pred(l) and op in _MIRROR:
                op = _MIRROR[op]
            else:
                return None
            if op in tuple(pos_ops):
                return True
            if op in tuple(neg_ops):
                return "neg"
        return None
    return atom


def ge_atom(left_pred, right_pred):
    """L >= R  (also R <= L; negations L < R, R > L)"""
    return cmp_atom(left_pred, right_pred, (ast.GtE,), (ast.Lt,))


def nonempty_atom(pred):
    """atom "the container e (pred(e)) is non-empty": e, bool(e), len(e) > 0, len(e) != 0, len(e) >= 1; negations: not e,
    len(e) == 0, len(e) < 1"""
    is_len = lambda x: isinstance(x, ast.Call) and isinstance(x.func, ast.Name) and x.func.id == "len" and len(x.args) == 1 and pred(x.args[0])
    zero = lambda x: isinstance(x, ast.Constant) and x.value == 0 and not isinstance(x.value, bool)
    one = lambda x: isinstance(x, ast.Constant) and x.value == 1 and not isinstance(x.value, bool)
    t = truthy_atom(pred)
    c0 = cmp_atom(is_len, zero, (ast.Gt, ast.NotEq), (ast.Eq, ast.LtE))
    c1 = cmp_atom(is_len, one, (ast.GtE,), (ast.Lt,))

    def atom(x):
        return t(x) or c0(x) or c1(x)
    return atom


def none_atom(pred):
    """atom `e is None` (negation: `e is not None`); also `e == None`"""
    return cmp_atom(pred, lambda r: isinstance(r, ast.Constant) and r.value is None, (ast.Is, ast.Eq), (ast.IsNot, ast.NotEq),
                    symmetric=False)


def in_atom(item_pred, container_pred):
    return cmp_atom(item_pred, container_pred, (ast.In,), (ast.NotIn,), symmetric=False)


def build(fn, split=False):
    try:
        return CFG(fn, split)
    except NotImplementedError as e:
        from .srcmodel import AnalysisError
        raise AnalysisError("cannot build a CFG for %s: %s" % (fn.name, e))
