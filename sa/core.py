"""Obligation bookkeeping, known-findings matching, evidence and witness files."""
import json
import os
import time

VERIF = os.path.dirname(os.path.dirname(os.path.abspath(__file__)))
EVIDENCE_DIR = os.path.join(VERIF, "evidence")
WITNESS_DIR = os.path.join(EVIDENCE_DIR, "witness")
KNOWN = os.path.join(VERIF, "known_findings.json")

TRUSTED = {
    "T1": "Python ast semantics; Automat semantics (state set before outputs, outputs in list order, "
          "arguments bound by name, re-entrant inputs immediate, undeclared pair => NoTransition)",
    "T2": "libraries behave as documented: spake2, PyNaCl SecretBox, cryptography HKDF, Noise, Twisted, os.path, zipfile",
    "T3": "environment of the mailbox client used by the typestate analysis (DESIGN.md section 3)",
    "T5": "environment of the two-party dilation product (sa/dilprod.py docstring; DESIGN.md 12.9): in-order mailbox channels between "
          "the two Managers, gated by the Dilator until versions and cut off by stop(); links come up only while both Connectors race, "
          "the Leader's end finishes its handshake first, the Follower's end offers itself on KCM, either end can die at any time; "
          "listen() Deferreds fire synchronously (Twisted TCP); eventual / callLater calls fire at any later moment unless cancelled",
    "T4": "the composition 'lemmas => property' is a paper argument (DESIGN.md section 4); the check discharges the lemmas",
}


class Report:
    def __init__(self, pid, tier="quick", seed=0):
        self.pid = pid
        self.tier = tier
        self.seed = seed
        self.t0 = time.time()
        self.obligations = []
        self.violations = []
        self.notes = []
        self.extra = {}
        self.samples = []
        self.evaluations = 0
        self.assumptions = []
        self.trusted = ["T1", "T4"]
        self.explanation = ""
        self.quiet = False

    # ------------------------------------------------------------------
    def check(self, rule, instance, ok, site=None, key=None, what=None, detail=None, evals=1):
        """Record one obligation (a rule instance bound to a construct). `ok` False => violation."""
        self.evaluations += max(1, evals)
        ob = {"rule": rule, "instance": instance, "site": site, "ok": bool(ok)}
        if detail:
            ob["detail"] = detail
        self.obligations.append(ob)
        if not ok:
            self.violation(rule, key or "%s:%s" % (rule, instance), what or instance, site, detail, _count=False)
        return bool(ok)

    def violation(self, rule, key, what, site=None, detail=None, trace=None, _count=True):
        if _count:
            self.evaluations += 1
            self.obligations.append({"rule": rule, "instance": what, "site": site, "ok": False})
        for v in self.violations:
            if v["key"] == key:
                return
        v = {"property": self.pid, "rule": rule, "key": key, "what": what, "site": site}
        if detail:
            v["detail"] = detail
        if trace:
            v["trace"] = trace
        self.violations.append(v)

    def note(self, msg):
        self.notes.append(msg)

    def sample(self, obj):
        if len(self.samples) < 12:
            self.samples.append(obj)

    # ------------------------------------------------------------------
    def unlisted(self):
        """the violations that are not listed as known findings of this property (what a run fails on)"""
        listed = {f["key"] for f in load_known() if f.get("property") == self.pid and f.get("status") == "known"}
        return [v for v in self.violations if v["key"] not in listed]

    def finish(self, tree, checker_cmd, min_obligations=0, write=True):
        from .srcmodel import AnalysisError
        n_ob = len(self.obligations)
        if n_ob < min_obligations and not (self.unlisted() and self.extra.get("incomplete")):
            # (an evaluation that stopped early AFTER it had established a violation reports that violation: fewer obligations are expected)
            raise AnalysisError("only %d obligations were generated, %d expected at least "
                                "(a rule matching no site never passes)" % (n_ob, min_obligations))
        known = load_known()
        listed = {f["key"]: f for f in known if f.get("property") == self.pid and f.get("status") == "known"}
        new, old = [], []
        for v in self.violations:
            (old if v["key"] in listed else new).append(v)
        lines = []
        for v in old:
            lines.append("KNOWN-FINDING: property=%s %s [%s] %s" % (
                self.pid, listed[v["key"]].get("what", v["what"]), v["key"], v.get("site") or ""))
        wpaths = []
        if write:
            os.makedirs(WITNESS_DIR, exist_ok=True)
            # remove stale witnesses of this property
            for f in os.listdir(WITNESS_DIR):
                if f.startswith(self.pid + "-"):
                    try:
                        os.unlink(os.path.join(WITNESS_DIR, f))
                    except OSError:
                        pass
        for i, v in enumerate(new):
            wp = os.path.join(WITNESS_DIR, "%s-%d.json" % (self.pid, i))
            if write:
                with open(wp, "w") as fh:
                    json.dump(v, fh, indent=1, default=str)
            wpaths.append(wp)
            lines.append("VIOLATION property=%s replay=%s" % (self.pid, wp))
            lines.append("  rule=%s key=%s" % (v["rule"], v["key"]))
            lines.append("  what: %s" % v["what"])
            if v.get("site"):
                lines.append("  site: %s" % v["site"])
            if v.get("detail"):
                lines.append("  detail: %s" % (v["detail"],))
            if v.get("trace"):
                lines.append("  trace: %s" % (v["trace"],))
        discharged = sum(1 for o in self.obligations if o["ok"])
        distinct = len({(o["rule"], o["instance"]) for o in self.obligations})
        samples = list(self.samples)
        for o in self.obligations:
            if len(samples) >= 8:
                break
            samples.append({k: o[k] for k in ("rule", "instance", "site") if o.get(k)})
        cov = {
            "explanation": self.explanation or "static rules over the syntax tree of /repo's working tree",
            "obligations": n_ob,
            "discharged": discharged,
            "evaluations": self.evaluations,
            "distinct_nontrivial": distinct,
            "rule": "an obligation is a rule instance bound to a construct of the source (function, table row, call "
                    "site, attribute writer); it counts as non-trivial/distinct by (rule id, instance text) and "
                    "only exists when the rule matched that construct - a rule matching nothing is an analysis error",
            "samples": samples,
            "checker_cmd": checker_cmd,
            "trusted_base": [t + ": " + TRUSTED[t] for t in self.trusted],
            "files": tree.digests() if tree is not None else {},
            "known_findings_reported": [v["key"] for v in old],
            "new_violations": [v["key"] for v in new],
            "notes": self.notes[:40],
        }
        if tree is not None:
            cov["normalisation"] = {
                "reference_snapshot": "sa/reference_names.json.gz (identifier snapshot of the tree the rules were written for)",
                "renames_undone": list(getattr(tree, "renames", []))[:80],
                "helpers_inlined_constants_propagated_loops_unrolled_idioms_normalised": list(getattr(tree, "inlined", []))[:80],
            }
        cov.update(self.extra)
        ev = {
            "property_id": self.pid,
            "tier": self.tier,
            "seed": int(self.seed),
            "level": "other",
            "coverage": cov,
            "assumptions": self.assumptions or [TRUSTED[t] for t in self.trusted],
            "wall_s": round(time.time() - self.t0, 3),
            "violations": len(new),
        }
        if write:
            os.makedirs(EVIDENCE_DIR, exist_ok=True)
            tmp = os.path.join(EVIDENCE_DIR, "%s.json.tmp" % self.pid)
            with open(tmp, "w") as fh:
                json.dump(ev, fh, indent=1, default=str)
            os.replace(tmp, os.path.join(EVIDENCE_DIR, "%s.json" % self.pid))
        summary = "%s tier=%s obligations=%d discharged=%d known=%d new=%d wall=%.1fs" % (
            self.pid, self.tier, n_ob, discharged, len(old), len(new), time.time() - self.t0)
        return (1 if new else 0), lines, summary, ev


def load_known():
    if not os.path.exists(KNOWN):
        return []
    with open(KNOWN) as fh:
        return json.load(fh).get("findings", [])
