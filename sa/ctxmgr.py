"""Context managers must not swallow exceptions: the failure clauses of the transfer properties (short transfer, bad hash, refused
overwrite, lost ack) are all carried by exceptions raised *inside* `with <timing event>:` blocks.  A `__exit__` that can return a
truthy value turns every one of them into silent success."""
import ast

from .astutil import dotted


def _may_return_truthy(cls, fn, depth=3, seen=None):
    """returns [Return nodes that may yield a truthy value] for method fn of class node cls"""
    seen = seen if seen is not None else set()
    if fn.name in seen or depth == 0:
        return []
    seen.add(fn.name)
    bad = []
    methods = {m.name: m for m in cls.body if isinstance(m, (ast.FunctionDef, ast.AsyncFunctionDef))}
    nested = {id(x) for f in ast.walk(fn) if isinstance(f, (ast.FunctionDef, ast.AsyncFunctionDef, ast.Lambda)) and f is not fn for x in ast.walk(f)}
    for r in ast.walk(fn):
        if not isinstance(r, ast.Return) or id(r) in nested or r.value is None:
            continue
        v = r.value
        if isinstance(v, ast.Constant) and not v.value:
            continue
        if isinstance(v, ast.Call) and isinstance(v.func, ast.Attribute) and isinstance(v.func.value, ast.Name) and v.func.value.id == "self" \
                and v.func.attr in methods:
            if not _may_return_truthy(cls, methods[v.func.attr], depth - 1, seen):
                continue
        bad.append(r)
    return bad


def check_with_blocks(tree, rep, rule, files):
    """every class of the package that defines __exit__ and whose instances can be the context of a `with` in `files`
    (resolved by the method that builds it: `<x>.add(..)` -> the class whose method `add` returns it; fallback: every
    __exit__ in the package) never suppresses an exception"""
    n = 0
    for p in tree.paths():
        for cls in [c for c in ast.walk(tree.ast(p)) if isinstance(c, ast.ClassDef)]:
            ex = [m for m in cls.body if isinstance(m, ast.FunctionDef) and m.name == "__exit__"]
            if not ex:
                continue
            n += 1
            bad = _may_return_truthy(cls, ex[0])
            rep.check(rule, "%s.__exit__ never returns a truthy value: exceptions raised inside `with` blocks propagate" % cls.name,
                      not bad, "%s:%d" % (p, (bad[0] if bad else ex[0]).lineno), key="%s:%s.__exit__:no-suppress" % (rule, cls.name),
                      what="%s.__exit__ can return a truthy value (%s): an exception raised inside a `with` block over it is swallowed - "
                           "a failed step (short transfer, bad hash, refused overwrite, lost ack) is reported as success" % (
                               cls.name, ast.unparse(bad[0])[:80] if bad else "?"))
    withs = 0
    for f in files:
        withs += sum(1 for w in ast.walk(tree.ast(f)) if isinstance(w, ast.With))
    if n == 0 and withs:
        # no context manager class in the package: the with blocks use library objects only
        rep.check(rule, "no context manager class is defined in the package (%d with-blocks use library objects)" % withs, True)


def swallowing_handlers(fn, covers):
    """except-clauses of `fn` that can end without re-raising although their try-body contains a call for which covers(call) is true:
    a failure of that call is turned into a normal return.  Returns [(handler, call)]."""
    from .cfg import build
    out = []
    g = None
    for t in [n for n in ast.walk(fn) if isinstance(n, ast.Try)]:
        hit = [c for b in t.body for c in ast.walk(b) if isinstance(c, ast.Call) and covers(c)]
        if not hit:
            continue
        g = g or build(fn)
        raises = g.nodes(lambda st: isinstance(st, ast.Raise))
        for h in t.handlers:
            hn = g.node_of(h)
            if hn is None or not g.must_pass(raises, start=hn, to=[g.exit], explicit_only=True):
                out.append((h, hit[0]))
    return out
