"""Checker self-test: every property module carries MUTANTS (edits that must be
reported, naming the expected rule) and REWRITES (behaviour-preserving edits that
must stay silent).  Edits are applied to the in-memory SourceTree; nothing is
written to disk and the repository's test suite is never run.

A mutant is *stale* when its anchor text no longer occurs exactly once in the
tree under analysis (the tree has moved on); stale entries are skipped and
counted, they never fail a run.
"""
import os
import sys
import time
from concurrent.futures import ProcessPoolExecutor

from .srcmodel import SourceTree, AnalysisError


class Edit:
    kind = "mutant"

    def __init__(self, id, file, old, new, expect=(), desc="", also=()):
        self.id, self.file, self.old, self.new = id, file, old, new
        self.expect = (expect,) if isinstance(expect, str) else tuple(expect)
        self.desc = desc
        self.also = tuple(also)     # further (file, old, new) edits applied together

    def apply(self, tree):
        files = dict(tree.files)
        for (f, old, new) in ((self.file, self.old, self.new),) + self.also:
            if f not in files or files[f].count(old) != 1:
                return None
            files[f] = files[f].replace(old, new)
        return files


class Mutant(Edit):
    kind = "mutant"


class Rewrite(Edit):
    kind = "rewrite"


def apply_unified_diff(files, difftext):
    """apply a `git diff` text to an in-memory file map; None if a hunk does not match exactly"""
    import re
    files = dict(files)
    cur = None
    hunks = {}
    for line in difftext.splitlines():
        if line.startswith("+++ "):
            path = line[4:].strip()
            cur = path[2:] if path.startswith("b/") else path
            hunks[cur] = []
        elif line.startswith("--- ") or line.startswith("diff --git") or line.startswith("index "):
            continue
        elif line.startswith("@@") and cur is not None:
            m = re.match(r"@@ -(\d+)(?:,(\d+))? \+(\d+)(?:,(\d+))? @@", line)
            if not m:
                return None
            hunks[cur].append([int(m.group(1)), []])
        elif cur is not None and hunks[cur] and line[:1] in (" ", "+", "-", ""):
            hunks[cur][-1][1].append(line if line else " ")
        elif line.startswith("\\"):
            continue
    for path, hs in hunks.items():
        if path.startswith("src/wormhole/test/"):
            continue
        if path not in files:
            return None
        src = files[path].split("\n")
        out = []
        pos = 0
        for start, lines in hs:
            old = [l[1:] for l in lines if l[:1] in (" ", "-")]
            new = [l[1:] for l in lines if l[:1] in (" ", "+")]
            idx = start - 1
            if src[idx:idx + len(old)] != old:
                # tolerate moved context: unique match elsewhere after the previous hunk
                cands = [i for i in range(pos, len(src) - len(old) + 1) if src[i:i + len(old)] == old]
                if len(cands) != 1:
                    return None
                idx = cands[0]
            if idx < pos:
                return None
            out.extend(src[pos:idx])
            out.extend(new)
            pos = idx + len(old)
        out.extend(src[pos:])
        files[path] = "\n".join(out)
    return files


def _eval(args):
    pid, files, root, tier, base, expect = args[:6]
    from .driver import evaluate
    sys.setrecursionlimit(20000)
    try:
        if len(args) > 6 and args[6]:
            # corpus refactoring: the table / flow / dataflow rules only (the typestate product is exercised by the
            # module's own REWRITES and by tools/rfcheck.py --a3)
            tree = SourceTree(files, root)
            rep, _ = evaluate(pid, tier, tree, skip_a3=True)
            return ("ok", [(v["key"], v["rule"]) for v in rep.violations])
        if expect is not None:
            # first pass without the (expensive) typestate exploration; enough if the cheap rules already fire
            tree = SourceTree(files, root)
            rep, _ = evaluate(pid, tier, tree, skip_a3=True)
            keys = [(v["key"], v["rule"]) for v in rep.violations]
            if any(k not in base and (not expect or any(r.startswith(x) or k.startswith(x) for x in expect))
                   for (k, r) in keys):
                return ("ok", keys)
        tree = SourceTree(files, root)
        rep, _ = evaluate(pid, tier, tree)
        return ("ok", [(v["key"], v["rule"]) for v in rep.violations])
    except AnalysisError as e:
        return ("analysis-error", str(e))
    except Exception as e:  # pragma: no cover
        import traceback
        return ("crash", traceback.format_exc()[-800:])


def run_for(pid, tree, base_rep=None, jobs=None, only=None):
    from .driver import load_prop, evaluate
    mod = load_prop(pid)
    edits = list(getattr(mod, "MUTANTS", [])) + list(getattr(mod, "REWRITES", []))
    if only:
        edits = [e for e in edits if e.id in only]
    if base_rep is None:
        base_rep, _ = evaluate(pid, "quick", tree)
    base = {v["key"] for v in base_rep.violations}
    tasks, stale = [], []
    for e in edits:
        files = e.apply(tree)
        if files is None:
            stale.append(e.id)
            continue
        tasks.append((e, (pid, files, tree.root, "quick", base, e.expect if e.kind == "mutant" else None)))
    # the corpus of behaviour-preserving refactorings (seeded/refactors/*.diff, written by maintainers-for-a-day who saw only
    # the property text): none of them may raise an alarm.  A diff that no longer applies to the tree under analysis is stale.
    n_corpus = 0
    if not only and not os.environ.get("VERIF_NO_CORPUS"):
        import glob
        from .core import VERIF
        import json
        limits = {}
        for sub, key in (("refactors_round3", "limits"), ("refactors_round4", "limits"), ("refactors_round5", "limits"), ("refactors_round6", "limits"), ("halves", "conservative")):
            lp = os.path.join(VERIF, "seeded", sub, "KNOWN_LIMITS.json" if sub != "halves" else "KNOWN_CONSERVATIVE.json")
            if os.path.exists(lp):
                with open(lp, encoding="utf-8") as fh:
                    limits[sub] = json.load(fh).get(key, {})
        for dp in sorted(glob.glob(os.path.join(VERIF, "seeded", "refactors", "*.diff"))) + \
                sorted(glob.glob(os.path.join(VERIF, "seeded", "refactors_round3", "*.diff"))) + \
                sorted(glob.glob(os.path.join(VERIF, "seeded", "refactors_round4", "*.diff"))) + \
                sorted(glob.glob(os.path.join(VERIF, "seeded", "refactors_round5", "*.diff"))) + \
                sorted(glob.glob(os.path.join(VERIF, "seeded", "refactors_round6", "*.diff"))) + \
                sorted(glob.glob(os.path.join(VERIF, "seeded", "halves", "*.diff"))):
            sub = os.path.basename(os.path.dirname(dp))
            r3 = sub != "refactors"
            base_name = os.path.basename(dp)[:-5]
            if r3 and pid in limits.get(sub, {}).get(base_name, {}).get("properties", []):
                continue            # a measured limit of this property's recognisers (listed with its reason), not a regression
            with open(dp, encoding="utf-8") as fh:
                files = apply_unified_diff(tree.files, fh.read())
            name = ({"refactors": "corpus:", "refactors_round3": "corpus3:", "refactors_round4": "corpus4:", "refactors_round5": "corpus5:", "refactors_round6": "corpus6:", "halves": "half:"}[sub]) + base_name
            if files is None:
                stale.append(name)
                continue
            n_corpus += 1
            tasks.append((Rewrite(name, "", "", "", desc="behaviour-preserving refactoring from the corpus"),
                          (pid, files, tree.root, "quick", base, None, True)))
    jobs = jobs or int(os.environ.get("VERIF_JOBS", "16"))
    t0 = time.time()
    results = []
    if tasks:
        if jobs > 1 and len(tasks) > 1:
            with ProcessPoolExecutor(max_workers=min(jobs, len(tasks))) as ex:
                results = list(ex.map(_eval, [t[1] for t in tasks]))
        else:
            results = [_eval(t[1]) for t in tasks]
    lines, failed = [], []
    n_m = n_r = 0
    for (e, _), (status, payload) in zip(tasks, results):
        if e.kind == "mutant":
            n_m += 1
            if status == "analysis-error":
                # fail-closed is an acceptable way of not passing a broken tree
                lines.append("selftest %s mutant %-28s caught (analysis-error: %s)" % (pid, e.id, payload[:80]))
                continue
            if status != "ok":
                failed.append("%s crashed" % e.id)
                lines.append("SELFTEST-FAIL %s mutant %s crashed: %s" % (pid, e.id, payload))
                continue
            new = [(k, r) for (k, r) in payload if k not in base]
            hit = [k for (k, r) in new if not e.expect or any(r.startswith(x) or k.startswith(x) for x in e.expect)]
            if hit:
                lines.append("selftest %s mutant %-28s caught by %s" % (pid, e.id, hit[0]))
            else:
                failed.append("%s not reported (new=%s)" % (e.id, [k for k, _ in new][:3]))
                lines.append("SELFTEST-FAIL %s mutant %s (%s) NOT reported by %s; new keys=%s" % (
                    pid, e.id, e.desc, e.expect, [k for k, _ in new][:4]))
        else:
            n_r += 1
            if status != "ok":
                failed.append("%s: %s on a behaviour-preserving rewrite" % (e.id, status))
                lines.append("SELFTEST-FAIL %s rewrite %s (%s): %s %s" % (pid, e.id, e.desc, status, payload))
                continue
            new = [k for (k, r) in payload if k not in base]
            if new:
                failed.append("%s raised %s" % (e.id, new[:3]))
                lines.append("SELFTEST-FAIL %s rewrite %s (%s) raised a false alarm: %s" % (pid, e.id, e.desc, new[:4]))
            else:
                lines.append("selftest %s rewrite %-27s silent" % (pid, e.id))
    summary = {"mutants": n_m, "rewrites": n_r, "corpus_refactorings": n_corpus, "stale_skipped": stale, "failed": failed,
               "wall_s": round(time.time() - t0, 1)}
    return {"lines": lines, "failed": failed, "summary": summary}


def main(args):
    from .driver import ALL_PROPS
    from .core import VERIF
    only = None
    pids = [a for a in args if a in ALL_PROPS]
    ids = [a for a in args if a not in ALL_PROPS]
    if ids:
        only = set(ids)
    if not pids:
        pids = [p for p in ALL_PROPS if os.path.exists(os.path.join(VERIF, "sa", "props", p + ".py"))]
    tree = SourceTree.load()
    bad = 0
    for pid in pids:
        try:
            st = run_for(pid, tree, only=only)
        except AnalysisError as e:
            print("ANALYSIS-ERROR property=%s %s" % (pid, e))
            bad += 1
            continue
        for l in st["lines"]:
            print(l)
        print("selftest %s: %s" % (pid, st["summary"]))
        bad += len(st["failed"])
    return 2 if bad else 0
