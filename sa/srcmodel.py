"""Source model: the tree under analysis as a value.

A SourceTree is a mapping  relpath -> source text  for every non-test Python
file of the package, plus lazily built syntax trees (with parent links),
class / function indexes and SHA-256 digests of the files a check consulted.
All engines take a SourceTree, never a directory: the checks build it from
/repo's working tree on every run, the self-tests build edited copies in
memory.
"""
import ast
import hashlib
import os

REPO = os.environ.get("VERIF_REPO", "/repo")
PKG = "src/wormhole"


class AnalysisError(Exception):
    """The analysis cannot decide (vanished anchor, unknown idiom). Exit 2."""


class AnchorMissing(AnalysisError):
    pass


def _link_parents(tree):
    for node in ast.walk(tree):
        for ch in ast.iter_child_nodes(node):
            ch._parent = node
    tree._parent = None


class SourceTree:
    def __init__(self, files, root=REPO):
        self.root = root
        self.files = dict(files)
        self._asts = {}
        self._parsed = False
        self._broken = {}
        self.renames = []
        self.inlined = []
        self.consulted = set()
        self._classes = None

    # -- construction -------------------------------------------------
    @classmethod
    def load(cls, root=REPO):
        files = {}
        base = os.path.join(root, PKG)
        if not os.path.isdir(base):
            raise AnchorMissing("package directory %s not found" % base)
        for d, dirs, fs in os.walk(base):
            dirs[:] = sorted(x for x in dirs if x not in ("test", "__pycache__"))
            for f in sorted(fs):
                if f.endswith(".py"):
                    p = os.path.join(d, f)
                    rel = os.path.relpath(p, root)
                    with open(p, encoding="utf-8") as fh:
                        files[rel] = fh.read()
        return cls(files, root)

    def with_edit(self, relpath, new_text):
        files = dict(self.files)
        files[relpath] = new_text
        return SourceTree(files, self.root)

    # -- access ---------------------------------------------------------
    def text(self, relpath):
        if relpath not in self.files:
            raise AnchorMissing("file %s not found" % relpath)
        self.consulted.add(relpath)
        return self.files[relpath]

    def _parse_all(self):
        """parse every file once, then undo consistent renames against the reference snapshot (sa/canon.py)"""
        if self._parsed:
            return
        self._parsed = True
        for rel, src in self.files.items():
            try:
                t = ast.parse(src, rel)
            except SyntaxError as e:
                self._broken[rel] = str(e)
                continue
            _link_parents(t)
            for n in ast.walk(t):
                n._file = rel
            self._asts[rel] = t
        if not os.environ.get("VERIF_NOCANON"):
            from . import canon, inline
            ref = canon.load_reference()
            self.renames = canon.canonicalize(self._asts, ref)
            self.inlined = inline.restore_moved_methods(self._asts, ref)
            self.inlined += inline.outline_vanished_helpers(self._asts, ref)
            self.inlined += inline.inline_new_helpers(self._asts, ref)
            self.inlined += inline.inline_new_constants(self._asts, ref)
            self.inlined += inline.namedtuples_to_tuples(self._asts, ref)
            self.inlined += inline.unroll_literal_loops(self._asts, ref)
            self.inlined += inline.normalize_idioms(self._asts, ref)
            self.inlined += inline.keyset_dicts_to_sets(self._asts, ref)

    def ast(self, relpath):
        self._parse_all()
        if relpath not in self._asts:
            self.text(relpath)
            raise AnalysisError("cannot parse %s: %s" % (relpath, self._broken.get(relpath, "?")))
        self.consulted.add(relpath)
        return self._asts[relpath]

    def paths(self):
        return sorted(self.files)

    def digest(self, relpath):
        return hashlib.sha256(self.files[relpath].encode("utf-8")).hexdigest()

    def digests(self):
        return {p: self.digest(p) for p in sorted(self.consulted) if p in self.files}

    # -- indexes --------------------------------------------------------
    def classes(self):
        """name -> list of (relpath, ClassDef) over the whole package (top-level classes)."""
        if self._classes is None:
            idx = {}
            for p in self.paths():
                for n in self.ast(p).body:
                    if isinstance(n, ast.ClassDef):
                        idx.setdefault(n.name, []).append((p, n))
            self._classes = idx
        return self._classes

    def cls(self, relpath, name):
        for n in self.ast(relpath).body:
            if isinstance(n, ast.ClassDef) and n.name == name:
                return n
        raise AnchorMissing("class %s not found in %s" % (name, relpath))

    def func(self, relpath, clsname, name):
        """FunctionDef `name` of class `clsname` (or module level if clsname is None)."""
        body = self.cls(relpath, clsname).body if clsname else self.ast(relpath).body
        for n in body:
            if isinstance(n, (ast.FunctionDef, ast.AsyncFunctionDef)) and n.name == name:
                return n
        if not clsname:
            # a module-level function moved, unchanged, to another module of the package (a unique definition of that name)
            found = [(p, n) for p in self.paths() for n in self.ast(p).body
                     if isinstance(n, (ast.FunctionDef, ast.AsyncFunctionDef)) and n.name == name]
            if len(found) == 1:
                from . import canon
                refu = (canon.load_reference() or {}).get(relpath, {}).get("fn|" + name)
                if refu is not None and canon.sig_of(found[0][1]).shape == refu[0]:
                    self.consulted.add(found[0][0])
                    return found[0][1]
        raise AnchorMissing("function %s%s not found in %s" % (
            (clsname + ".") if clsname else "", name, relpath))

    def has_func(self, relpath, clsname, name):
        try:
            self.func(relpath, clsname, name)
            return True
        except AnchorMissing:
            return False

    def methods(self, relpath, clsname):
        return {n.name: n for n in self.cls(relpath, clsname).body
                if isinstance(n, (ast.FunctionDef, ast.AsyncFunctionDef))}

    def all_functions(self):
        """yield (relpath, clsname|None, FunctionDef) for every top-level function and method."""
        for p in self.paths():
            for n in self.ast(p).body:
                if isinstance(n, (ast.FunctionDef, ast.AsyncFunctionDef)):
                    yield p, None, n
                elif isinstance(n, ast.ClassDef):
                    for m in n.body:
                        if isinstance(m, (ast.FunctionDef, ast.AsyncFunctionDef)):
                            yield p, n.name, m

    def module_constants(self, relpath):
        """module-level NAME = <expr> assignments: name -> value node"""
        out = {}
        for n in self.ast(relpath).body:
            if isinstance(n, ast.Assign) and len(n.targets) == 1 and isinstance(n.targets[0], ast.Name):
                out[n.targets[0].id] = n.value
        return out


def site(node, relpath=None):
    """file:line of an ast node"""
    p = relpath or getattr(node, "_file", "?")
    return "%s:%s" % (p, getattr(node, "lineno", "?"))
