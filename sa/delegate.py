"""The delegate front-end is a relay: each event method of _DelegatedWormhole hands its argument to the matching wormhole_* method of
the delegate, on every path, in the same activation, and that is the only place the delegate method is called from.  (The Deferred
front-end buffers in observers; the delegate one must not grow a buffer, a once-only flag or a reordering of its own: the Boss and the
machines below it already provide order and at-most-once, and anything added here applies to the delegate API only - the mode the
test suite barely exercises.)"""
import ast

from .astutil import dotted, params
from .cfg import build
from .srcmodel import site, AnalysisError

WH = "src/wormhole/wormhole.py"
PAIRS = (("got_welcome", "wormhole_got_welcome"), ("got_code", "wormhole_got_code"), ("got_key", "wormhole_got_unverified_key"),
         ("got_verifier", "wormhole_got_verifier"), ("got_versions", "wormhole_got_versions"), ("received", "wormhole_got_message"),
         ("closed", "wormhole_closed"))


def check(tree, rep, rule, only=None, why=""):
    cls = tree.cls(WH, "_DelegatedWormhole")
    methods = {m.name: m for m in cls.body if isinstance(m, ast.FunctionDef)}
    n = 0
    for (meth, dmeth) in PAIRS:
        if only is not None and meth not in only:
            continue
        fn = methods.get(meth)
        if fn is None:
            raise AnalysisError("_DelegatedWormhole.%s not found" % meth)
        ps = params(fn)
        g = build(fn)
        target = "self._delegate." + dmeth
        fw = g.call_nodes(lambda c: dotted(c.func) == target and len(c.args) == 1 and isinstance(c.args[0], ast.Name) and ps and c.args[0].id == ps[0])
        stores = [x for x in ast.walk(fn) if isinstance(x, ast.Name) and isinstance(x.ctx, ast.Store) and ps and x.id == ps[0]]
        ok = len(fw) == 1 and g.must_pass(fw, explicit_only=True) and not stores
        others = [(mn, c) for mn, m in methods.items() for c in ast.walk(m) if isinstance(c, ast.Call) and dotted(c.func) == target and mn != meth]
        n += 1
        rep.check(rule, "_DelegatedWormhole.%s hands its argument to delegate.%s on every path, and nothing else calls that delegate method" % (meth, dmeth),
                  ok and not others, site((others[0][1] if others else fn), WH), key="%s:_DelegatedWormhole.%s:relay" % (rule, meth),
                  what="_DelegatedWormhole.%s no longer simply relays to delegate.%s (%s): in delegate mode an event can be held back, dropped, "
                       "repeated or re-ordered by the front-end itself%s" % (meth, dmeth, "also called from %s" % others[0][0] if others else
                                                                              "a path returns without calling it, or the argument is replaced", why))
    return n
