"""The empty byte string is a legal application message: no code on the message path may decide anything by the TRUTHINESS of a
payload value (`if not plaintext: return`, `x = d.pop(k, None); if not x: break`, `if plaintext: deliver`), which confuses b"" with
"absent" - the empty message is then dropped, stalls the in-order delivery behind it, or is taken for an undecryptable one."""
import ast

from .astutil import dotted, is_self_attr, params
from .srcmodel import site

FILES = ("src/wormhole/wormhole.py", "src/wormhole/_boss.py", "src/wormhole/_send.py", "src/wormhole/_receive.py")
PARAM_NAMES = ("plaintext",)


def _payload_names(fn):
    names = {p for p in params(fn) if p in PARAM_NAMES}
    for a in ast.walk(fn):
        if isinstance(a, (ast.Assign, ast.AnnAssign, ast.NamedExpr)):
            val = a.value
            if val is None:
                continue
            tg = a.targets if isinstance(a, ast.Assign) else [a.target]
            src = False
            for c in ast.walk(val):
                if isinstance(c, ast.Call):
                    d = dotted(c.func) or ""
                    if d.split(".")[-1] in ("decrypt_data",):
                        src = True
                    if isinstance(c.func, ast.Attribute) and c.func.attr in ("pop", "get") and is_self_attr(c.func.value, "_rx_phases"):
                        src = True
                if isinstance(c, ast.Subscript) and is_self_attr(c.value, "_rx_phases"):
                    src = True
                if isinstance(c, ast.Name) and c.id in names and val is c:
                    src = True          # plain alias
            if src:
                for t in tg:
                    if isinstance(t, ast.Name):
                        names.add(t.id)
    return names


def _truthiness_tests(fn, names):
    bad = []
    for x in ast.walk(fn):
        tests = []
        if isinstance(x, (ast.If, ast.While, ast.IfExp, ast.Assert)):
            tests.append(x.test)
        elif isinstance(x, ast.BoolOp):
            tests.extend(x.values)
        elif isinstance(x, ast.UnaryOp) and isinstance(x.op, ast.Not):
            tests.append(x.operand)
        elif isinstance(x, ast.comprehension):
            tests.extend(x.ifs)
        for t in tests:
            while isinstance(t, ast.UnaryOp) and isinstance(t.op, ast.Not):
                t = t.operand
            if isinstance(t, ast.Call) and isinstance(t.func, ast.Name) and t.func.id in ("bool", "len") and t.args:
                t = t.args[0]
            if isinstance(t, ast.Name) and t.id in names:
                bad.append(t)
    return bad


def check(tree, rep, rule, why):
    from .srcmodel import AnalysisError
    n = 0
    for (p, cname, fn) in tree.all_functions():
        if p not in FILES:
            continue
        names = _payload_names(fn)
        if not names:
            continue
        n += 1
        bad = _truthiness_tests(fn, names)
        label = "%s%s" % ((cname + ".") if cname else "", fn.name)
        rep.check(rule, "%s never decides by the truthiness of a message payload (%s): the empty message b\"\" is a message" % (label, sorted(names)),
                  not bad, site(bad[0] if bad else fn, p), key="%s:%s:payload-truthiness" % (rule, label),
                  what="%s tests the payload `%s` for truthiness: send_message(b\"\") is legal, and the empty message is then %s"
                       % (label, bad[0].id if bad else "", why))
    if n < 8:
        raise AnalysisError("%s: fewer functions handling a message payload than expected (%d)" % (rule, n))
    return n
