"""Engine D: attribute write discipline (who writes <obj>.<attr>, and how).

`writers(tree, attr)` lists every site in the package that writes an attribute of
that name on any object expression: plain / augmented / annotated assignment,
subscript store, `del x.attr[...]`, and mutating method calls on it.  Sites are
keyed by (file, class, function, kind); rules compare them with a discipline.
"""
import ast

from .astutil import dotted, enclosing_function, enclosing_class, short

MUTATORS = {"add", "append", "appendleft", "pop", "popleft", "popitem", "clear", "remove", "discard", "extend",
            "extendleft", "rotate", "update", "insert", "setdefault", "sort", "reverse",
            "difference_update", "intersection_update", "symmetric_difference_update", "__setitem__", "__delitem__"}


class Write:
    __slots__ = ("file", "cls", "fn", "kind", "node", "value", "base")

    def __init__(self, file, cls, fn, kind, node, value=None, base=None):
        self.file, self.cls, self.fn, self.kind, self.node, self.value, self.base = file, cls, fn, kind, node, value, base

    @property
    def site(self):
        return "%s:%d" % (self.file, self.node.lineno)

    def brief(self):
        return "%s.%s:%s" % (self.cls or "<module>", self.fn or "<class body>", self.kind)

    def __repr__(self):
        return "<%s %s %s>" % (self.brief(), self.site, short(self.node, 50))


def _attr_of(node, attr):
    return isinstance(node, ast.Attribute) and node.attr == attr


def writers(tree, attr, files=None):
    out = []
    for p in (files or tree.paths()):
        mod = tree.ast(p)
        for n in ast.walk(mod):
            hits = []
            if isinstance(n, ast.Assign):
                for t in n.targets:
                    for tt in (t.elts if isinstance(t, (ast.Tuple, ast.List)) else [t]):
                        if _attr_of(tt, attr):
                            hits.append(("assign", n.value, tt.value))
                        elif isinstance(tt, ast.Subscript) and _attr_of(tt.value, attr):
                            hits.append(("setitem" if not isinstance(tt.slice, ast.Slice) else "setslice", n.value, tt.value.value))
            elif isinstance(n, ast.AnnAssign):
                if _attr_of(n.target, attr) and n.value is not None:
                    hits.append(("assign", n.value, n.target.value))
            elif isinstance(n, ast.AugAssign):
                if _attr_of(n.target, attr):
                    hits.append(("aug:" + type(n.op).__name__, n.value, n.target.value))
                elif isinstance(n.target, ast.Subscript) and _attr_of(n.target.value, attr):
                    hits.append(("augitem", n.value, n.target.value.value))
            elif isinstance(n, ast.Delete):
                for t in n.targets:
                    if _attr_of(t, attr):
                        hits.append(("del", None, t.value))
                    elif isinstance(t, ast.Subscript) and _attr_of(t.value, attr):
                        hits.append(("delitem", None, t.value.value))
            elif isinstance(n, ast.Call) and isinstance(n.func, ast.Attribute) and _attr_of(n.func.value, attr) \
                    and n.func.attr in MUTATORS:
                hits.append(("call:" + n.func.attr, n, n.func.value.value))
            elif isinstance(n, ast.Call) and dotted(n.func) == "setattr" and len(n.args) >= 2 \
                    and isinstance(n.args[1], ast.Constant) and n.args[1].value == attr:
                hits.append(("setattr", n.args[2] if len(n.args) > 2 else None, n.args[0]))
            for kind, value, base in hits:
                fn = enclosing_function(n)
                cls = enclosing_class(n)
                out.append(Write(p, cls.name if cls else None, fn.name if fn else None, kind, n, value, base))
    return out


def class_level_defaults(tree, relpath, clsname, attr):
    """class-body `attr = <expr>` assignments (attrs fields / class defaults)"""
    out = []
    for st in tree.cls(relpath, clsname).body:
        if isinstance(st, ast.Assign) and any(isinstance(t, ast.Name) and t.id == attr for t in st.targets):
            out.append(st)
    return out


def is_const(node, value):
    return isinstance(node, ast.Constant) and type(node.value) is type(value) and node.value == value


def is_empty_ctor(node, names):
    """`set()`, `deque()`, `{}`, `[]`, `dict()` ... by callee name or literal kind"""
    if isinstance(node, ast.Call) and not node.args and not node.keywords:
        d = dotted(node.func)
        return d is not None and d.split(".")[-1] in names
    if isinstance(node, ast.Dict) and not node.keys and "dict" in names:
        return True
    if isinstance(node, ast.List) and not node.elts and "list" in names:
        return True
    if isinstance(node, ast.Set) and "set" in names:
        return False
    return False


INIT_FUNCS = ("__init__", "__attrs_post_init__", "_init_other_state")


def class_writers(tree, cls, attr):
    """writers of <cls instance>.<attr>: the sites inside class `cls` that write self.<attr>, plus every site
    anywhere in the package that writes <non-self expr>.<attr> (a possible foreign write to our object)."""
    own, foreign = [], []
    for w in writers(tree, attr):
        base_self = isinstance(w.base, ast.Name) and w.base.id == "self"
        if base_self and w.cls == cls:
            own.append(w)
        elif not base_self:
            foreign.append(w)
    return own, foreign


def check_counter(tree, rep, rule, relpath, cls, attr, step=1, init_funcs=INIT_FUNCS, init_values=(0,)):
    """monotone counter: constant initialisation in a constructor (or the functions named), otherwise only `+= step`"""
    own, foreign = class_writers(tree, cls, attr)
    own = own + foreign
    bad = []
    n_aug = 0
    for w in own:
        if w.kind == "aug:Add" and is_const(w.value, step) and w.cls == cls:
            n_aug += 1
        elif w.kind == "assign" and w.cls == cls and w.fn in init_funcs and \
                any(is_const(w.value, v) for v in init_values):
            pass
        else:
            bad.append(w)
    ok = not bad and n_aug >= 1
    for w in bad:
        rep.violation(rule, "%s:%s.%s:writer:%s" % (rule, cls, attr, w.brief()),
                      "%s.%s is written outside its monotone-counter discipline (init const, then only += %d): %s"
                      % (cls, attr, step, short(w.node, 70)), w.site)
    rep.check(rule, "%s.%s is a monotone counter (init %s in %s, then only += %d; %d increment site(s), %d writer(s))"
              % (cls, attr, "/".join(map(str, init_values)), "/".join(init_funcs[:2]), step, n_aug, len(own)),
              ok or bool(bad), "%s" % (own[0].site if own else relpath),
              key="%s:%s.%s:no-increment" % (rule, cls, attr),
              what="%s.%s has no `+= %d` site left" % (cls, attr, step), evals=max(1, len(own)))
    return own


def writer_table(tree, rep, rule, cls, attr, allowed, why):
    """every site that writes <cls>.<attr> is one of `allowed`: {(function, kind), ..} with kind as effects.Writer.kind ('assign',
    'call:add', 'delete', ..) or '*' for any kind in that function"""
    from .srcmodel import AnalysisError as _AE
    own, foreign = class_writers(tree, cls, attr)
    if not own:
        raise _AE("%s.%s has no writers (attribute renamed?)" % (cls, attr))
    for w in own + foreign:
        ok = w in own and ((w.fn, w.kind) in allowed or (w.fn, "*") in allowed)
        rep.check(rule, "%s.%s writer %s is one of the known %d" % (cls, attr, w.brief(), len(allowed)), ok, w.site,
                  key="%s:%s:writer:%s" % (rule, attr, w.brief()), what="%s.%s is written by %s: %s" % (cls, attr, w.brief(), why))


