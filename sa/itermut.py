"""No container of the package is modified while it is being iterated directly: `for x in self.<attr>:` (or over a local alias of it)
whose body calls a mutator on that same attribute - remove / discard / pop / append / add / clear / del - skips elements (lists,
deques) or raises RuntimeError (sets, dicts).  Iterating over a copy (`list(self.x)`, `sorted(..)`, `.copy()`, a slice) is the
accepted idiom and is what the tree does."""
import ast

from .astutil import is_self_attr
from .srcmodel import site

MUTATORS = ("remove", "discard", "pop", "popleft", "append", "appendleft", "add", "clear", "insert", "extend", "update", "setdefault")


def check(tree, rep, rule, files, why):
    n = 0
    for (p, cname, fn) in tree.all_functions():
        if p not in files:
            continue
        for loop in [x for x in ast.walk(fn) if isinstance(x, (ast.For, ast.AsyncFor))]:
            it = loop.iter
            if not is_self_attr(it):
                continue
            n += 1
            attr = it.attr
            bad = []
            for st in loop.body:
                for x in ast.walk(st):
                    if isinstance(x, ast.Call) and isinstance(x.func, ast.Attribute) and x.func.attr in MUTATORS and is_self_attr(x.func.value, attr):
                        bad.append(x)
                    if isinstance(x, ast.Delete) and any(isinstance(t, ast.Subscript) and is_self_attr(t.value, attr) for t in x.targets):
                        bad.append(x)
            label = "%s%s" % ((cname + ".") if cname else "", fn.name)
            rep.check(rule, "%s iterates self.%s directly and does not modify it inside the loop" % (label, attr), not bad,
                      site(bad[0] if bad else loop, p), key="%s:%s:%s:iterate-unmodified" % (rule, label, attr),
                      what="%s modifies self.%s (%s) while iterating over it: elements are skipped (list / deque) or the loop raises "
                           "(set / dict) - %s" % (label, attr, ast.unparse(bad[0])[:50] if bad else "", why))
    return n
