"""Command-line driver: run property checks, replay witnesses, run the self-test catalogue."""
import importlib
import json
import os
import sys
import time
import traceback

from .srcmodel import SourceTree, AnalysisError
from .core import Report, VERIF

ALL_PROPS = ["C%02d" % i for i in range(1, 21)]


def load_prop(pid):
    try:
        return importlib.import_module("sa.props.%s" % pid)
    except ModuleNotFoundError as e:
        if e.name == "sa.props.%s" % pid:
            raise AnalysisError("no check is implemented for %s" % pid)
        raise


def evaluate(pid, tier, tree, seed=0, write=False, skip_a3=False):
    """Run the rules of one property on a tree. Returns (report, module)."""
    mod = load_prop(pid)
    rep = Report(pid, tier, seed)
    rep.skip_a3 = skip_a3
    rep.explanation = getattr(mod, "EXPLANATION", "")
    rep.trusted = list(getattr(mod, "TRUSTED_BASE", ["T1", "T4"]))
    rep.assumptions = list(getattr(mod, "ASSUMPTIONS", []))
    try:
        mod.run(tree, rep, tier)
    except AnalysisError as e:
        # a violation already established stands, even if a later rule could not be evaluated on this tree (a listed known finding
        # is not one: with nothing new established, "cannot decide" must stay "cannot decide")
        if not rep.unlisted():
            raise
        rep.extra["incomplete"] = "evaluation stopped early: %s" % e
    return rep, mod


def run_property(pid, tier, seed=0, write=True, tree=None):
    t0 = time.time()
    if os.environ.get("VERIF_NOWRITE"):
        write = False       # used when trying the checks on a deliberately broken tree (tools/seedrun.sh)
    try:
        if tree is None:
            tree = SourceTree.load()
        rep, mod = evaluate(pid, tier, tree, seed, write)
        selftest_lines = []
        if tier == "thorough" and hasattr(mod, "MUTANTS"):
            from . import selftest
            st = selftest.run_for(pid, tree, base_rep=rep)
            rep.extra["selftest"] = st["summary"]
            selftest_lines = st["lines"]
            if st["failed"] and not rep.unlisted():
                # the checker itself is wrong on this tree; never a silent pass
                for l in selftest_lines:
                    print(l)
                raise AnalysisError("self-test of the %s checker failed: %s" % (pid, "; ".join(st["failed"][:5])))
        cmd = "./vcheck %s --tier %s" % (pid, tier)
        code, lines, summary, ev = rep.finish(tree, cmd, getattr(mod, "MIN_OBLIGATIONS", 1), write=write)
        for l in selftest_lines:
            print(l)
        for l in lines:
            print(l)
        print(("FAIL " if code else "OK   ") + summary)
        return code
    except AnalysisError as e:
        print("ANALYSIS-ERROR property=%s %s" % (pid, e))
        return 2
    except Exception:
        traceback.print_exc()
        print("ANALYSIS-ERROR property=%s internal error of the checker (see traceback)" % pid)
        return 2


def replay(path):
    with open(path) as fh:
        w = json.load(fh)
    pid = w["property"]
    try:
        tree = SourceTree.load()
        rep, mod = evaluate(pid, os.environ.get("VERIF_TIER", "quick"), tree)
    except AnalysisError as e:
        print("ANALYSIS-ERROR property=%s %s" % (pid, e))
        return 2
    for v in rep.violations:
        if v["key"] == w["key"]:
            print("REPRODUCED property=%s key=%s" % (pid, v["key"]))
            print("  what: %s" % v["what"])
            print("  site: %s" % v.get("site"))
            if v.get("trace"):
                print("  trace: %s" % (v["trace"],))
            print("VIOLATION property=%s replay=%s" % (pid, path))
            return 1
    print("NOT-REPRODUCED property=%s key=%s (the rule instance holds on the current tree)" % (pid, w["key"]))
    return 0


def main(argv):
    if not argv or argv[0] in ("-h", "--help"):
        print(__doc__)
        return 2
    tier = os.environ.get("VERIF_TIER", "quick")
    seed = int(os.environ.get("VERIF_SEED", "0") or 0)
    args = list(argv)
    if "--tier" in args:
        i = args.index("--tier")
        tier = args[i + 1]
        del args[i:i + 2]
    if tier not in ("quick", "thorough"):
        print("unknown tier %s" % tier)
        return 2
    os.chdir(VERIF)
    cmd = args[0]
    if cmd == "replay":
        return replay(args[1])
    if cmd == "selftest":
        from . import selftest
        return selftest.main(args[1:])
    if cmd == "all":
        worst = 0
        for pid in ALL_PROPS:
            if os.path.exists(os.path.join(VERIF, "sa", "props", pid + ".py")):
                worst = max(worst, run_property(pid, tier, seed))
        return worst
    if cmd in ALL_PROPS:
        return run_property(cmd, tier, seed)
    print("unknown command %s" % cmd)
    return 2
