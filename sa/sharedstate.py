"""Per-instance state must be per instance: no container that is meant to belong to one object is shared between objects.

Three shapes make two objects (or two attributes of one object) share one mutable container in Python, all of them invisible in the
methods that later use the container: (a) an attrs field whose `default=` is a mutable object (evaluated once, at class creation; the
correct spelling is `factory=` / `Factory(..)`); (b) a class-level container that methods mutate through `self`; (c) a chained
assignment `self.a = self.b = {}` (one object, two names).  The rules of the properties talk about "the queue", "the dedup set",
"the reorder buffer" of ONE wormhole / connection: each property checks the classes its lemmas are about.
"""
import ast

from .astutil import dotted

MUTABLE_CTORS = {"list", "dict", "set", "deque", "defaultdict", "OrderedDict", "Counter", "bytearray", "EmptyableSet"}
MUTATORS = {"append", "appendleft", "add", "extend", "insert", "update", "setdefault", "pop", "popleft", "popitem", "remove", "discard", "clear"}

# classes whose per-instance containers carry the lemmas of a property
PROPERTY_CLASSES = {
    "C01": ["Order", "Receive", "Key", "_SortedKey", "Code", "Boss"],
    "C02": ["Boss", "Mailbox", "Order", "Receive", "Send"],
    "C03": ["Boss", "Mailbox", "Order", "Send", "SequenceObserver", "EventualQueue", "_DeferredWormhole"],
    "C06": ["Connection"],
    "C07": ["Common", "_ThereCanBeOnlyOne", "InboundConnectionFactory", "Connection"],
    "C08": ["Boss", "Terminator", "Nameplate", "Mailbox", "RendezvousConnector"],
    "C09": ["Mailbox", "Nameplate", "Allocator", "Lister", "RendezvousConnector"],
    "C10": ["Outbound", "Inbound", "Manager", "DilatedConnectionProtocol", "SubChannel"],
    "C12": ["_Framer", "_Record", "DilatedConnectionProtocol"],
    "C13": ["SubChannel", "SubchannelDemultiplex", "Inbound", "Manager", "SubchannelListenerEndpoint", "SubchannelConnectorEndpoint"],
    "C14": ["Boss", "Nameplate", "Mailbox", "Send", "Order", "Key", "_SortedKey", "Receive", "Lister", "Allocator", "Input", "Code",
            "Terminator", "RendezvousConnector", "Dilator"],
    "C15": ["Outbound", "Inbound", "PullToPush"],
    "C17": ["Manager", "Connector", "Dilator"],
    "C18": ["Boss", "SequenceObserver", "OneShotObserver", "EventualQueue", "_DeferredWormhole", "_DelegatedWormhole"],
    "C20": ["Common", "Connector"],
}


def _is_mutable_value(v):
    if isinstance(v, (ast.List, ast.Dict, ast.Set, ast.ListComp, ast.DictComp, ast.SetComp)):
        return True
    if isinstance(v, ast.Call):
        d = dotted(v.func)
        return d is not None and d.split(".")[-1] in MUTABLE_CTORS
    return False


def findings(tree):
    """[(file, class name, attribute names, kind, node)] over the whole package"""
    out = []
    for p in tree.paths():
        mod = tree.ast(p)
        for cls in [n for n in ast.walk(mod) if isinstance(n, ast.ClassDef)]:
            mutated = set()
            assigned = set()
            for fn in [f for f in cls.body if isinstance(f, (ast.FunctionDef, ast.AsyncFunctionDef))]:
                for n in ast.walk(fn):
                    if isinstance(n, ast.Call) and isinstance(n.func, ast.Attribute) and n.func.attr in MUTATORS:
                        b = n.func.value
                        while isinstance(b, ast.Subscript):
                            b = b.value
                        if isinstance(b, ast.Attribute) and isinstance(b.value, ast.Name) and b.value.id == "self":
                            mutated.add(b.attr)
                    for t in (n.targets if isinstance(n, ast.Assign) else [n.target] if isinstance(n, (ast.AugAssign, ast.AnnAssign)) else
                              n.targets if isinstance(n, ast.Delete) else []):
                        for tt in ast.walk(t):
                            if isinstance(tt, ast.Subscript):
                                b = tt.value
                                while isinstance(b, ast.Subscript):
                                    b = b.value
                                if isinstance(b, ast.Attribute) and isinstance(b.value, ast.Name) and b.value.id == "self":
                                    mutated.add(b.attr)
                        if isinstance(t, ast.Attribute) and isinstance(t.value, ast.Name) and t.value.id == "self" and isinstance(n, (ast.Assign, ast.AnnAssign)):
                            assigned.add(t.attr)
                    # (c) chained assignment of one mutable object to several names
                    if isinstance(n, ast.Assign) and len(n.targets) > 1 and _is_mutable_value(n.value):
                        names = [dotted(t) for t in n.targets if dotted(t)]
                        attrs = [t.attr for t in n.targets if isinstance(t, ast.Attribute)]
                        if attrs:
                            out.append((p, cls.name, attrs, "one container bound to several names (%s)" % " = ".join(names), n))
            for st in cls.body:
                tgt = val = None
                if isinstance(st, ast.Assign) and len(st.targets) == 1 and isinstance(st.targets[0], ast.Name):
                    tgt, val = st.targets[0].id, st.value
                elif isinstance(st, ast.AnnAssign) and isinstance(st.target, ast.Name) and st.value is not None:
                    tgt, val = st.target.id, st.value
                if tgt is None:
                    continue
                if isinstance(val, ast.Call) and (dotted(val.func) or "").split(".")[-1] in ("attrib", "ib", "field"):
                    # (a) attrs field with a mutable default
                    for k in val.keywords:
                        if k.arg == "default" and _is_mutable_value(k.value):
                            out.append((p, cls.name, [tgt, tgt.lstrip("_"), "_" + tgt.lstrip("_")],
                                        "attrs field %s with a mutable default (evaluated once and shared by every instance; use factory=)" % tgt, st))
                    if val.args and _is_mutable_value(val.args[0]):
                        out.append((p, cls.name, [tgt], "attrs field %s with a mutable positional default" % tgt, st))
                elif _is_mutable_value(val) and tgt in mutated and tgt not in assigned:
                    # (b) class-level container mutated through self and never re-bound per instance
                    out.append((p, cls.name, [tgt], "class-level container %s is mutated through self (shared by every instance)" % tgt, st))
    return out


def check(tree, rep, rule, pid=None, classes=None):
    classes = classes or PROPERTY_CLASSES.get(pid or rep.pid, [])
    fs = [f for f in findings(tree) if f[1] in classes]
    rep.check(rule, "per-instance containers of %s are per instance (no mutable attrs default, no class-level container mutated through self, "
              "no chained assignment of one container to two attributes)" % ", ".join(classes), not fs,
              ("%s:%d" % (fs[0][0], fs[0][4].lineno)) if fs else None, key="%s:shared-state" % rule,
              what="; ".join("%s.%s: %s" % (f[1], "/".join(f[2][:1]), f[3]) for f in fs[:4]) +
                   " - state that the rules treat as belonging to one wormhole / connection is shared between objects (or between two "
                   "buffers of one object): entries of one leak into the other")
    for f in fs[1:]:
        rep.violation(rule, "%s:shared-state:%s.%s" % (rule, f[1], f[2][0]), "%s.%s: %s" % (f[1], f[2][0], f[3]), "%s:%d" % (f[0], f[4].lineno))
