"""Engine A3: whole-client typestate analysis.

An abstract interpretation of the *source* of the mailbox client (the 13 Automat
machine classes plus RendezvousConnector): the abstract state is the Automat state
of every machine plus constant-propagation values for the attributes that the
constructors initialise to constants / set() / [] ; the transfer function is the
statement semantics of the method bodies, with `self._X.inp()` on a wired machine
firing that machine's table row exactly as Automat does (state first, outputs in
list order, arguments bound by name, re-entrant inputs immediate, undeclared pair
=> NoTransition).  The only hand-written part is the environment (who may call
the client from outside, and when): see `Explorer.events`.

Nothing of /repo is imported or executed.
"""
import ast
import collections
import re
import sys
import time

from .srcmodel import AnalysisError, AnchorMissing
from .automat_x import Program

CLIENT = ["Boss", "Nameplate", "Mailbox", "Send", "Order", "Key", "_SortedKey", "Receive",
          "Lister", "Allocator", "Input", "Code", "Terminator"]
CONNECTOR = "RendezvousConnector"
APP_ATTR = "_W"             # Boss._W is the application-facing wormhole object
OPAQUE_CLASSES = ("Dilator",)   # wired neighbours whose bodies are not interpreted (unless the environment includes dilation)
# the dilation extension: Dilator (plain class) and Manager (machine, created by Dilator.dilate) join the product
DILATION_PLAIN = ("Dilator",)
DILATION_MACHINES = ("Manager",)
# attributes of the extension tracked as constants (class-level defaults and constructor assignments)
# functions that are transparent for abstract payloads (decoding / decryption of an abstract body yields that body)
IDENTITY_FUNCS = {"bytes_to_dict": 0, "hexstr_to_bytes": 0, "decrypt_data": 1}
# integer / dict attributes tracked concretely (needed to keep the content of sequenced dilation messages)
TRACKED_INTS = {("Boss", "_next_rx_dilate_seqnum")}
TRACKED_DICTS = {("Boss", "_rx_dilate_seqnums")}
# attributes tracked symbolically: the stored value is kept as C(<str const>) / C("<Ctor>()") / C("<param>")
SYMBOLIC = {("Boss", "_result"), ("Mailbox", "_mood")}
# verdict -> mood pairing (docs/server-protocol.rst "close" moods; "unwelcome" is the client's own fifth mood)
VERDICT_MOOD = {"happy": "happy", "LonelyError()": "lonely", "WrongPasswordError()": "scary",
                "ServerError()": "errory", "<welcome_error>": "unwelcome"}
OBSERVED_EXC = ("CryptoError",)
BUILTIN_ERRORS = {"ValueError", "TypeError", "RuntimeError", "KeyError", "IndexError", "AttributeError", "Exception",
                  "AssertionError", "NotImplementedError", "LookupError"}
# T3: causes the environment rules out - (function on top of the call stack, exception) -> reason
T3_EXCLUDED_RAISES = {("Manager.choose_role", "ValueError"): "the peer's dilation side equals ours: sides are 64 random bits and a "
                                                           "reflected `please` cannot be produced without the session key"}
# lists tracked precisely as bounded lists of abstract items (every other list is T): value = required?
TRACKED_LISTS = {("Order", "_queue"): True, ("Receive", "_early_messages"): False,
                 ("Dilator", "_pending_inbound_dilate_messages"): False}


# ---------------------------------------------------------------- abstract values
class _Interned:
    """abstract values are interned: equality is identity, hashing is the (C-level) identity hash"""
    __slots__ = ()
    _cache = {}

    @classmethod
    def _get(cls, key, build):
        k = (cls, key)
        o = _Interned._cache.get(k)
        if o is None:
            o = object.__new__(cls)
            build(o)
            _Interned._cache[k] = o
        return o

    def __reduce__(self):  # pragma: no cover - values never leave the process
        raise TypeError("abstract values are not picklable")


class C(_Interned):
    __slots__ = ("v",)

    def __new__(cls, v):
        return cls._get((type(v), v), lambda o: setattr(o, "v", v))

    def __repr__(self):
        return "C(%r)" % (self.v,)


class D(_Interned):
    __slots__ = ("d",)

    def __new__(cls, d):
        d = dict(d)
        key = tuple(sorted(d.items(), key=lambda kv: repr(kv[0])))
        return cls._get(key, lambda o: setattr(o, "d", d))

    def __repr__(self):
        return "D(%s)" % (sorted(self.d.items(), key=repr),)


class FS(_Interned):
    __slots__ = ("s",)

    def __new__(cls, s=()):
        s = frozenset(s)
        return cls._get(s, lambda o: setattr(o, "s", s))

    def __repr__(self):
        return "FS(%s)" % (sorted(self.s, key=repr),)


class FL(_Interned):
    """tracked bounded list of abstract items"""
    __slots__ = ("items",)

    def __new__(cls, items=()):
        items = tuple(items)
        return cls._get(items, lambda o: setattr(o, "items", items))

    def __repr__(self):
        return "FL(%r)" % (self.items,)


class TUP(_Interned):
    __slots__ = ("items",)

    def __new__(cls, items):
        items = tuple(items)
        return cls._get(items, lambda o: setattr(o, "items", items))

    def __repr__(self):
        return "TUP(%r)" % (self.items,)


class METH(_Interned):
    """a bound method of a client class held in a local (getattr dispatch)"""
    __slots__ = ("cls", "name")

    def __new__(cls_, cls, name):
        def b(o):
            o.cls, o.name = cls, name
        return cls_._get((cls, name), b)

    def __repr__(self):
        return "METH(%s.%s)" % (self.cls, self.name)


class OBJV(_Interned):
    """reference to the (single) instance of a class created during the run"""
    __slots__ = ("cls",)

    def __new__(cls_, cls):
        return cls_._get(cls, lambda o: setattr(o, "cls", cls))

    def __repr__(self):
        return "OBJV(%s)" % self.cls


class MATCH(_Interned):
    """result of re.search on constants: the tuple of groups"""
    __slots__ = ("groups",)

    def __new__(cls_, groups):
        groups = tuple(groups)
        return cls_._get(groups, lambda o: setattr(o, "groups", groups))

    def __repr__(self):
        return "MATCH%r" % (self.groups,)


class K(_Interned):
    """a container of a known Python type whose content (and emptiness) is unknown: K("list") / K("set")"""
    __slots__ = ("kind",)

    def __new__(cls, kind):
        return cls._get(("K", kind), lambda o: setattr(o, "kind", kind))

    def __repr__(self):
        return "K(%s)" % self.kind


def _is_ground(v):
    """a constant, or a tuple of constants (usable as a set member / dict key of a tracked collection)"""
    return isinstance(v, C) or (isinstance(v, TUP) and all(isinstance(x, C) for x in v.items))


def kind_of(v):
    if isinstance(v, K):
        return v.kind
    if isinstance(v, FL):
        return "list"
    if isinstance(v, FS):
        return "set"
    return None


def _has_call(node):
    r = getattr(node, "_vt_has_call", None)
    if r is None:
        r = any(isinstance(n, ast.Call) for n in ast.walk(node))
        try:
            node._vt_has_call = r
        except AttributeError:
            pass
    return r


def truth(v):
    if isinstance(v, str):
        return 'U' if v == 'N' else v       # 'N': some value that is not None (truthiness unknown)
    if isinstance(v, C):
        return 'T' if v.v else 'F'
    if isinstance(v, D):
        return 'T' if v.d else 'F'
    if isinstance(v, FS):
        return 'T' if v.s else 'F'
    if isinstance(v, (FL, TUP)):
        return 'T' if v.items else 'F'
    if isinstance(v, (METH, OBJV, MATCH)):
        return 'T'
    return 'U'     # (also K: a container whose emptiness is unknown)


def inv(v):
    return {'T': 'F', 'F': 'T'}.get(truth(v), 'U')


MISSING = ("<missing>",)


class SlotIndex:
    def __init__(self):
        self.index = {}
        self.keys = []


class S:
    """abstract global state with interned slots"""
    __slots__ = ("v", "_k", "ix")

    def __init__(self, ix, other=None):
        self.ix = ix
        self.v = list(other.v) if other is not None else []
        self._k = None

    def __getitem__(self, k):
        i = self.ix.index[k]
        val = self.v[i] if i < len(self.v) else MISSING
        if val is MISSING:
            raise KeyError(k)
        return val

    def get(self, k, d=None):
        i = self.ix.index.get(k)
        if i is None or i >= len(self.v):
            return d
        val = self.v[i]
        return d if val is MISSING else val

    def __contains__(self, k):
        i = self.ix.index.get(k)
        return i is not None and i < len(self.v) and self.v[i] is not MISSING

    def __setitem__(self, k, val):
        i = self.ix.index.get(k)
        if i is None:
            i = len(self.ix.keys)
            self.ix.index[k] = i
            self.ix.keys.append(k)
        if i >= len(self.v):
            self.v.extend([MISSING] * (i + 1 - len(self.v)))
        self.v[i] = val
        self._k = None

    def key(self):
        if self._k is None:
            v = self.v
            n = len(v)
            while n and v[n - 1] is MISSING:
                n -= 1
            self._k = tuple(v[:n])
        return self._k

    def cp(self):
        return S(self.ix, self)

    def items(self):
        for i, val in enumerate(self.v):
            if val is not MISSING:
                yield self.ix.keys[i], val

    def machines(self):
        return {k[1]: v for k, v in self.items() if k[0] == 'm'}


class Ctx:
    """cls: class whose method is interpreted; locs: locals; exc: names of the specific exception handlers of the
    lexically enclosing try statements of the current function (an external call there may raise them)"""
    __slots__ = ("cls", "locs", "exc")

    def __init__(self, cls, locs, exc=()):
        self.cls = cls
        self.locs = locs
        self.exc = exc


def lkey(locs):
    return tuple(sorted(locs.items(), key=lambda kv: kv[0]))


class EventBudgetExceeded(Exception):
    """the interpretation of ONE environment event forked beyond its step budget (path explosion inside a loop over a tracked list)"""


EVENT_STEP_BUDGET = 400000


class Viol:
    def __init__(self, kind, detail, stack, site=None):
        self.kind, self.detail, self.stack, self.site = kind, detail, stack, site
        self.state_key = None
        self.event = None


# ---------------------------------------------------------------- interpreter
class Interp:
    def __init__(self, prog, reentrant=False, list_bound=6, max_depth=80, dilation=False):
        self.prog = prog
        self.ALL = prog.classes
        self.dilation = dilation
        self.scope = set(CLIENT) | {CONNECTOR}
        self.opaque = set(OPAQUE_CLASSES)
        self.instantiable = set()
        if dilation:
            for c in DILATION_PLAIN + DILATION_MACHINES:
                if c not in self.ALL:
                    raise AnchorMissing("class %s not found" % c)
            self.scope |= set(DILATION_PLAIN) | set(DILATION_MACHINES)
            self.opaque -= set(DILATION_PLAIN)
            self.instantiable = set(DILATION_MACHINES)
        for c in CLIENT + [CONNECTOR]:
            if c not in self.ALL:
                raise AnchorMissing("client class %s not found" % c)
            if c != CONNECTOR and not self.ALL[c].is_machine:
                raise AnchorMissing("client class %s is no longer an Automat machine" % c)
        self.viol = collections.OrderedDict()
        self.stack = []
        self.reentrant = reentrant
        self.list_bound = list_bound
        self.max_depth = max_depth
        self.ix = SlotIndex()
        self.app_events_seen = set()
        self.fired_rows = set()
        self._ext_cache = {}
        self.continuations = {}
        self._ext_info = {}

    # -- violations ------------------------------------------------------
    def add_viol(self, kind, detail, site=None):
        key = (kind, detail)
        if key not in self.viol:
            self.viol[key] = Viol(kind, detail, list(self.stack), site)

    # -- pure evaluation ---------------------------------------------------
    def ev(self, e, st, ctx):
        if isinstance(e, ast.Constant):
            if e.value is None or isinstance(e.value, (bool, str, bytes, int)):
                return C(e.value)
            return 'U'
        if isinstance(e, ast.Name):
            return ctx.locs.get(e.id, 'U')
        if isinstance(e, ast.Tuple):
            return TUP([self.ev(x, st, ctx) for x in e.elts])
        if isinstance(e, ast.List):
            if len(e.elts) <= self.list_bound and not any(isinstance(x, ast.Starred) for x in e.elts):
                return FL([self.ev(x, st, ctx) for x in e.elts])
            return 'U'
        if isinstance(e, ast.Attribute) and isinstance(e.value, ast.Name) and e.value.id == "self":
            return st.get(('a', ctx.cls.name, e.attr), 'U')
        if isinstance(e, ast.UnaryOp) and isinstance(e.op, ast.Not):
            return inv(self.ev(e.operand, st, ctx))
        if isinstance(e, ast.BoolOp):
            vals = [truth(self.ev(v, st, ctx)) for v in e.values]
            if isinstance(e.op, ast.And):
                if 'F' in vals:
                    return 'F'
                return 'T' if all(v == 'T' for v in vals) else 'U'
            if 'T' in vals:
                return 'T'
            return 'F' if all(v == 'F' for v in vals) else 'U'
        if isinstance(e, ast.BinOp) and isinstance(e.op, ast.Add):
            l, r = self.ev(e.left, st, ctx), self.ev(e.right, st, ctx)
            if isinstance(l, C) and isinstance(r, C) and isinstance(l.v, str) and isinstance(r.v, str):
                return C(l.v + r.v)
            return 'U'
        if isinstance(e, ast.IfExp):
            t = truth(self.ev(e.test, st, ctx))
            if t == 'T':
                return self.ev(e.body, st, ctx)
            if t == 'F':
                return self.ev(e.orelse, st, ctx)
            a, b = self.ev(e.body, st, ctx), self.ev(e.orelse, st, ctx)
            return a if a == b else 'U'
        if isinstance(e, ast.Subscript):
            base = self.ev(e.value, st, ctx)
            idx = self.ev(e.slice, st, ctx)
            if isinstance(base, D) and isinstance(idx, C) and idx.v in base.d:
                return base.d[idx.v]
            return 'U'
        if isinstance(e, ast.Call):
            f = e.func
            if isinstance(f, ast.Name) and f.id == "bool" and e.args:
                return truth(self.ev(e.args[0], st, ctx))
            if isinstance(f, ast.Name) and f.id in ("sorted", "list") and f.id not in ctx.locs:
                return K("list")
            if isinstance(f, ast.Name) and f.id in ("set", "frozenset") and f.id not in ctx.locs:
                return K("set")
            if isinstance(f, ast.Name) and f.id in IDENTITY_FUNCS and len(e.args) > IDENTITY_FUNCS[f.id]:
                v = self.ev(e.args[IDENTITY_FUNCS[f.id]], st, ctx)
                return v if isinstance(v, D) else 'N'      # a decoded / decrypted payload is never None
            if isinstance(f, ast.Name) and f.id == "int" and len(e.args) == 1:
                v = self.ev(e.args[0], st, ctx)
                if isinstance(v, C) and isinstance(v.v, str) and v.v.isdigit():
                    return C(int(v.v))
                if isinstance(v, C) and isinstance(v.v, int):
                    return v
                return 'U'
            if isinstance(f, ast.Attribute) and f.attr in ("isdigit", "isnumeric", "isdecimal", "isalpha", "startswith", "endswith") \
                    and not e.keywords and len(e.args) <= 1:
                base = self.ev(f.value, st, ctx)
                if isinstance(base, C) and isinstance(base.v, str):
                    if not e.args:
                        return 'T' if getattr(base.v, f.attr)() else 'F'
                    a0 = self.ev(e.args[0], st, ctx)
                    if isinstance(a0, C) and isinstance(a0.v, str) and f.attr in ("startswith", "endswith"):
                        return 'T' if getattr(base.v, f.attr)(a0.v) else 'F'
            if isinstance(f, ast.Attribute) and f.attr == "group" and len(e.args) == 1:
                mo = self.ev(f.value, st, ctx)
                idx = self.ev(e.args[0], st, ctx)
                if isinstance(mo, MATCH) and isinstance(idx, C) and isinstance(idx.v, int) and 1 <= idx.v <= len(mo.groups):
                    g = mo.groups[idx.v - 1]
                    return C(g) if g is not None else C(None)
                return 'U'
            if isinstance(f, ast.Attribute) and f.attr == "pop" and isinstance(f.value, ast.Attribute) and isinstance(f.value.value, ast.Name) \
                    and f.value.value.id == "self" and len(e.args) >= 1:
                base = st.get(('a', ctx.cls.name, f.value.attr))
                k = self.ev(e.args[0], st, ctx)
                if isinstance(base, D) and isinstance(k, C) and k.v in base.d:
                    return base.d[k.v]      # (the removal is done by do_call)
                return 'U'
            if isinstance(f, ast.Name) and f.id == "getattr" and len(e.args) >= 2 \
                    and isinstance(e.args[0], ast.Name) and e.args[0].id == "self":
                n = self.ev(e.args[1], st, ctx)
                if isinstance(n, C) and isinstance(n.v, str):
                    if n.v in ctx.cls.methods or n.v in ctx.cls.inputs:
                        return METH(ctx.cls.name, n.v)
                    if ('a', ctx.cls.name, n.v) in st:
                        return st[('a', ctx.cls.name, n.v)]
                    if isinstance(e.args[1], ast.Constant):
                        if len(e.args) > 2 and not self._attr_assigned_anywhere(ctx.cls, n.v):
                            return self.ev(e.args[2], st, ctx)      # nobody ever sets it: always the default
                        return 'U'      # a data attribute the analysis does not track: may or may not be set
                    if len(e.args) > 2:
                        return self.ev(e.args[2], st, ctx)   # computed name (dispatch idiom): no such method
                return 'U'
            if isinstance(f, ast.Attribute) and f.attr == "search" and isinstance(f.value, ast.Name) \
                    and f.value.id == "re" and len(e.args) == 2:
                pat = self.ev(e.args[0], st, ctx)
                s = self.ev(e.args[1], st, ctx)
                if isinstance(pat, C) and isinstance(s, C) and isinstance(s.v, str) and isinstance(pat.v, str):
                    try:
                        mo = re.search(pat.v, s.v)
                    except re.error:
                        return 'U'
                    if not mo:
                        return C(None)
                    return MATCH(mo.groups()) if mo.groups() else 'T'
                return 'U'
            if isinstance(f, ast.Attribute) and f.attr == "get" and e.args:
                base = self.ev(f.value, st, ctx)
                k = self.ev(e.args[0], st, ctx)
                if isinstance(base, D) and isinstance(k, C):
                    if k.v in base.d:
                        return base.d[k.v]
                    return self.ev(e.args[1], st, ctx) if len(e.args) > 1 else C(None)
            return 'U'
        if isinstance(e, ast.ListComp):
            return K("list")
        if isinstance(e, (ast.SetComp, ast.Set)):
            return K("set")
        if isinstance(e, ast.Compare) and len(e.ops) == 1:
            l = self.ev(e.left, st, ctx)
            r = self.ev(e.comparators[0], st, ctx)
            op = e.ops[0]
            if isinstance(op, (ast.Is, ast.IsNot)) and isinstance(r, C) and r.v is None:
                t = truth(l)
                if isinstance(l, C):
                    res = 'T' if l.v is None else 'F'
                elif t == 'T' or l == 'N' or isinstance(l, (D, FS, FL, TUP, METH, K)):
                    res = 'F'
                else:
                    res = 'U'
                return res if isinstance(op, ast.Is) else inv(res)
            if isinstance(op, (ast.Eq, ast.NotEq)) and isinstance(l, C) and isinstance(r, C):
                res = 'T' if l == r else 'F'
                return res if isinstance(op, ast.Eq) else inv(res)
            if isinstance(op, (ast.Eq, ast.NotEq)) and ((l == C(None) and truth(r) == 'T') or (r == C(None) and truth(l) == 'T')):
                return 'F' if isinstance(op, ast.Eq) else 'T'       # a non-empty object never equals None
            if isinstance(op, (ast.In, ast.NotIn)):
                if isinstance(r, FS) and _is_ground(l):
                    res = 'T' if l in r.s else 'F'
                    return res if isinstance(op, ast.In) else inv(res)
                if isinstance(r, D) and isinstance(l, C):
                    res = 'T' if l.v in r.d else 'F'
                    return res if isinstance(op, ast.In) else inv(res)
            return 'U'
        return 'U'

    def _attr_assigned_anywhere(self, cls, attr):
        cache = self.__dict__.setdefault("_assigned_cache", {})
        k = (cls.name, attr)
        if k not in cache:
            found = attr in cls.attr_fields or attr.lstrip("_") in [f.lstrip("_") for f in cls.attr_fields]
            for c in self.ALL.values():
                if found:
                    break
                for n in ast.walk(c.node):
                    if isinstance(n, ast.Attribute) and n.attr == attr and isinstance(n.ctx, (ast.Store, ast.Del)):
                        found = True
                        break
                    if isinstance(n, ast.Call) and isinstance(n.func, ast.Name) and n.func.id == "setattr":
                        found = True
                        break
            cache[k] = found
        return cache[k]

    # -- call resolution ---------------------------------------------------
    def resolve(self, call, ctx):
        kind, c, name = self._resolve(call, ctx)
        if kind in ("input", "method") and c is not None and c.name not in self.scope and c.name not in self.opaque:
            return (None, c, name)      # a class outside the interpreted product: an external call
        return (kind, c, name)

    def _resolve(self, call, ctx):
        f = call.func
        if isinstance(f, ast.Name):
            v = ctx.locs.get(f.id)
            if isinstance(v, METH):
                c = self.ALL[v.cls]
                if v.name in c.inputs:
                    return ("input", c, v.name)
                return ("method", c, v.name)
            return (None, None, None)
        if isinstance(f, ast.Attribute) and f.attr in ("callback", "errback") and isinstance(f.value, ast.Name) \
                and f.value.id != "self" and not isinstance(ctx.locs.get(f.value.id), OBJV) and ctx.cls.name in CLIENT:
            # a Deferred fired in place by a client machine (the input helper's when_wordlist_is_available()): the application's
            # callbacks run here, inside the transition - a re-entry point like the delegate's methods
            return ("app", None, "helper_deferred_fired")
        if isinstance(f, ast.Attribute) and isinstance(f.value, ast.Name) and isinstance(ctx.locs.get(f.value.id), OBJV):
            c = self.ALL[ctx.locs[f.value.id].cls]
            if f.attr in c.inputs:
                return ("input", c, f.attr)
            if f.attr in c.methods:
                return ("method", c, f.attr)
            return (None, c, f.attr)
        if isinstance(f, ast.Attribute):
            v = f.value
            if isinstance(v, ast.Name) and v.id == "self":
                c = ctx.cls
                if f.attr in c.inputs:
                    return ("input", c, f.attr)
                if f.attr in c.methods:
                    return ("method", c, f.attr)
                return (None, None, f.attr)
            if isinstance(v, ast.Attribute) and isinstance(v.value, ast.Name) and v.value.id == "self":
                if v.attr == APP_ATTR and ctx.cls.name == "Boss":
                    return ("app", None, f.attr)
                tgt = ctx.cls.wiring.get(v.attr)
                if isinstance(tgt, str) and tgt in self.ALL:
                    c = self.ALL[tgt]
                    if f.attr in c.inputs:
                        return ("input", c, f.attr)
                    if f.attr in c.methods:
                        return ("method", c, f.attr)
                    if tgt in CLIENT or tgt == CONNECTOR:
                        raise AnalysisError("%s.%s calls %s.%s(), which class %s does not define" % (
                            ctx.cls.name, self.stack[-1] if self.stack else "?", v.attr, f.attr, tgt))
                    return (None, c, f.attr)
        return (None, None, None)

    def contains_external_call(self, node, ctx):
        key = (id(node), ctx.cls.name)
        r = self._ext_cache.get(key)
        if r is None:
            r = False
            for n in ast.walk(node):
                if isinstance(n, ast.Call) and (isinstance(n.func, ast.Name) or self.resolve(n, ctx)[0] is None):
                    r = True
                    break
            self._ext_cache[key] = r
        return r

    # -- application events ----------------------------------------------
    def app_event(self, name, st):
        st = st.cp()
        self.app_events_seen.add(name)
        if st.get(("e", "app_closed")) == "T" and name not in ("got_welcome", "helper_deferred_fired"):
            self.add_viol("event-after-closed", name)
        if name == "closed":
            if st.get(('e', 'app_closed')) == 'T':
                self.add_viol("closed-twice", name)
            if any(x.endswith(".W_closed") for x in self.stack):
                # a Terminator-driven (orderly) close: server resources must be released by now
                if st.get(('e', 'srv_claimed')) == 'T':
                    self.add_viol("closed-with-claim-held", "nameplate")
                elif st.get(('e', 'srv_alloc_claim')) == 'T':
                    # the only claim left is the one the server made for us when it allocated the nameplate
                    self.add_viol("closed-with-allocation-claim-held",
                                  "allocated-reply-processed" if st.get(('e', 'alloc_answered')) == 'T' else "allocated-reply-never-processed")
                if st.get(('e', 'srv_mb')) == 'T':
                    self.add_viol("closed-with-mailbox-open", "mailbox")
                if st.get(('e', 'rc_dead')) != 'T':
                    self.add_viol("closed-before-rc-stopped", "rc")
            st[('e', 'app_closed')] = 'T'
        elif name in ("got_code", "got_key", "got_verifier", "got_versions"):
            k = ('e', 'ev_' + name)
            if st.get(k) == 'T' and st.get(('e', 'list_overflow')) != 'T':
                # (after a tracked queue overflowed its bound, multiplicities can no longer be read off the abstraction)
                self.add_viol("event-twice", name)
            st[k] = 'T'
            need = {"got_key": "got_code", "got_verifier": "got_key", "got_versions": "got_verifier"}.get(name)
            if need and st.get(('e', 'ev_' + need)) != 'T':
                self.add_viol("event-order", "%s before %s" % (name, need))
        elif name == "received":
            if st.get(('e', 'ev_got_verifier')) != 'T':
                self.add_viol("event-order", "received before got_verifier")
        return st

    @staticmethod
    def bind(fn, argvals, kwvals):
        ps = [a.arg for a in fn.args.args][1:]
        locs = {}
        for p_, v in zip(ps, argvals):
            locs[p_] = v
        for k, v in kwvals.items():
            locs[k] = v
        if fn.args.kwarg:
            locs[fn.args.kwarg.arg] = 'U'
        return locs

    def do_call(self, call, st, ctx, argvals, kwvals):
        kind, tgt, meth = self.resolve(call, ctx)
        if kind == "app":
            base = self.app_event(meth, st)
            res = [(base, 'U', None)]
            if self.reentrant and meth != "closed" and base.get(('e', 'app_closed')) != 'T':
                B = self.ALL["Boss"]
                self.stack.append("delegate.%s->close()" % meth)
                s2 = base.cp()
                s2[('e', 'api_closed')] = 'T'
                res.extend(self.fire(B, "close", s2, {}))
                self.stack.pop()
                if base.get(('e', 'api_closed')) != 'T':
                    self.stack.append("delegate.%s->send()" % meth)
                    res.extend(self.fire(B, "send", base, {}))
                    self.stack.pop()
            return res
        if kind == "input":
            fn = tgt.inputs[meth]
            return self.fire(tgt, meth, st, self.bind(fn, argvals, kwvals))
        if kind == "method":
            if tgt.name == CONNECTOR and meth == "_tx":
                if argvals and isinstance(argvals[0], C):
                    t = argvals[0].v
                    st = st.cp()
                    if t in ("claim", "release", "close", "allocate", "list"):
                        st[('e', 'pend_' + t)] = 'T'
                    if t == "claim":
                        st[('e', 'srv_claimed')] = 'T'
                    if t == "allocate":
                        # docs/server-protocol.rst: "Allocating a nameplate automatically claims it" - for this side, when the server
                        # processes the request, whether or not its `allocated` reply is ever read
                        st[('e', 'srv_alloc_claim')] = 'T'
                    if t == "open":
                        st[('e', 'mb_open')] = 'T'
                        st[('e', 'srv_mb')] = 'T'
                    if t == "bind":
                        st[('e', 'bound')] = 'T'
                    elif st.get(('e', 'bound')) != 'T':
                        self.add_viol("tx-before-bind", t)
                    # docs/server-protocol.rst: `add` and a `close` that does not name its mailbox refer to the mailbox opened on
                    # THIS connection; `release` without a nameplate to the one claimed on this connection
                    if t == "add" and st.get(('e', 'mb_open')) != 'T':
                        self.add_viol("tx-protocol", "`add` is sent on a connection on which the mailbox has not been opened")
                    if t == "close" and st.get(('e', 'mb_open')) != 'T' and (kwvals.get("mailbox") is None or kwvals.get("mailbox") == C(None)):
                        self.add_viol("tx-protocol", "`close` without a mailbox id is sent on a connection on which the mailbox has not been "
                                                     "opened (the server answers with an error and never confirms)")
                    if t == "close":
                        # C08: the mood sent with `close` matches the verdict the application will get
                        mood = kwvals.get("mood")
                        res = st.get(('a', 'Boss', '_result'))
                        want = VERDICT_MOOD.get(res.v) if isinstance(res, C) else None
                        if mood == 'T' and res == 'T':
                            pass    # pairing already verified when `close` was first sent
                        elif not (isinstance(mood, C) and isinstance(mood.v, str)):
                            self.add_viol("mood", "mailbox closed with a mood the analysis cannot name (%r)" % (mood,))
                        elif want is not None and mood.v != want:
                            self.add_viol("mood", "mailbox closed with mood %r while the verdict is %s" % (mood.v, res.v))
                        elif want is not None:
                            # pairing verified: forget the concrete values (merges the closing states)
                            st[('a', 'Boss', '_result')] = 'T'
                            st[('a', 'Mailbox', '_mood')] = 'T'
                else:
                    raise AnalysisError("RendezvousConnector._tx called with a non-constant message type "
                                        "(stack %s)" % " > ".join(self.stack[-3:]))
            if tgt.name in self.opaque:
                if meth == "stop":
                    st = st.cp()
                    st[('e', 'd_stop_pending')] = 'T'
                return [(st, 'U', None)]
            if tgt.name not in self.scope:
                return [(st, 'U', None)]
            return self.run_method(tgt, meth, st, self.bind(tgt.methods[meth], argvals, kwvals))
        # creation of the (single) instance of a class that joins the product when it is created
        f0 = call.func
        cname = f0.id if isinstance(f0, ast.Name) else None
        if cname in self.instantiable:
            return [(self._instantiate(cname, st), OBJV(cname), None)]
        # an external call.  (a) it may hand a continuation to Twisted; (b) it may stop the ClientService
        st = self._external_effects(call, st, ctx)
        # tracked collection mutation: self._attr.add(x) / .append(x)
        f = call.func
        if isinstance(f, ast.Attribute) and isinstance(f.value, ast.Attribute) and isinstance(f.value.value, ast.Name) \
                and f.value.value.id == "self":
            k = ('a', ctx.cls.name, f.value.attr)
            cur = st.get(k)
            if isinstance(cur, D) and (ctx.cls.name, f.value.attr) in TRACKED_DICTS:
                if f.attr == "pop" and argvals and isinstance(argvals[0], C) and argvals[0].v in cur.d:
                    st = st.cp()
                    val = cur.d[argvals[0].v]
                    st[k] = D({kk: vv for kk, vv in cur.d.items() if kk != argvals[0].v})
                    return [(st, val, None)]
                st = st.cp()
                st[k] = 'U'
                return [(st, 'U', None)]
            if isinstance(cur, FS):
                if f.attr == "add" and argvals:
                    st = st.cp()
                    st[k] = FS(cur.s | {argvals[0]}) if _is_ground(argvals[0]) else 'U'
                    return [(st, 'U', None)]
                if f.attr in ("clear", "discard", "remove", "pop", "update", "difference_update", "intersection_update"):
                    st = st.cp()
                    if f.attr == "clear":
                        st[k] = FS()
                    elif f.attr in ("discard", "remove") and argvals and _is_ground(argvals[0]):
                        st[k] = FS(cur.s - {argvals[0]})
                    else:
                        st[k] = 'U'
                    return [(st, 'U', None)]
            if isinstance(cur, FL):
                if f.attr == "append" and argvals:
                    st = st.cp()
                    if len(cur.items) < self.list_bound:
                        st[k] = FL(cur.items + (argvals[0],))
                    else:
                        # the bounded list overflows: its content is unknown from here on, and so is how often each item is in it
                        st[k] = 'U'
                        st[('e', 'list_overflow')] = 'T'
                    return [(st, 'U', None)]
                if f.attr == "clear":
                    st = st.cp()
                    st[k] = FL(())
                    return [(st, 'U', None)]
                if f.attr == "popleft" or (f.attr == "pop" and argvals and argvals[0] == C(0)):
                    st = st.cp()
                    if cur.items:
                        st[k] = FL(cur.items[1:])
                        return [(st, cur.items[0], None)]
                    return [(st, 'U', ('raise', 'IndexError'))]
                if f.attr in ("pop", "insert", "extend", "remove", "reverse", "sort"):
                    st = st.cp()
                    st[k] = 'U'
                    return [(st, 'U', None)]
        return [(st, self.ev(call, st, ctx), None)]

    REGISTRARS = ("addCallback", "addBoth", "addErrback", "addCallbacks", "callLater", "deferLater", "eventually",
                  "callWhenRunning", "callFromThread")

    def _external_effects(self, call, st, ctx):
        info = self._ext_info.get((id(call), ctx.cls.name))
        if info is None:
            f = call.func
            fname = f.attr if isinstance(f, ast.Attribute) else (f.id if isinstance(f, ast.Name) else None)
            stops = any(isinstance(n, ast.Attribute) and n.attr == "stopService" for n in ast.walk(call))
            conts = []
            if fname in self.REGISTRARS:
                for a in list(call.args) + [k.value for k in call.keywords]:
                    if isinstance(a, ast.Lambda):
                        if any(isinstance(x, ast.Call) and self.resolve(x, ctx)[0] is not None for x in ast.walk(a.body)):
                            cid = "%s.<lambda@%d>" % (ctx.cls.name, a.lineno)
                            self.continuations[cid] = (ctx.cls, a)
                            conts.append(cid)
                    elif isinstance(a, ast.Attribute) and isinstance(a.value, ast.Name) and a.value.id == "self" \
                            and (a.attr in ctx.cls.methods or a.attr in ctx.cls.inputs):
                        cid = "%s.%s" % (ctx.cls.name, a.attr)
                        self.continuations[cid] = (ctx.cls, a.attr)
                        conts.append(cid)
                    elif isinstance(a, ast.Name):
                        # a closure defined in the enclosing function
                        p_ = getattr(call, "_parent", None)
                        while p_ is not None and not isinstance(p_, (ast.FunctionDef, ast.AsyncFunctionDef)):
                            p_ = getattr(p_, "_parent", None)
                        nested = None
                        while p_ is not None and nested is None:
                            nested = next((n for n in ast.walk(p_) if isinstance(n, ast.FunctionDef) and n is not p_ and n.name == a.id), None)
                            p_ = getattr(p_, "_parent", None)
                            while p_ is not None and not isinstance(p_, (ast.FunctionDef, ast.AsyncFunctionDef)):
                                p_ = getattr(p_, "_parent", None)
                        if nested is not None and any(isinstance(x, ast.Call) and self.resolve(x, ctx)[0] is not None for x in ast.walk(nested)):
                            cid = "%s.<closure %s@%d>" % (ctx.cls.name, nested.name, nested.lineno)
                            self.continuations[cid] = (ctx.cls, nested)
                            conts.append(cid)
            info = (stops, tuple(conts))
            self._ext_info[(id(call), ctx.cls.name)] = info
        stops, conts = info
        if not stops and not conts:
            return st
        # (b) a mention of <connector>.stopService in this call: the connection service is being shut down
        if stops:
            if st.get(('a', CONNECTOR, '_stopping')) != C(True) and \
                    truth(st.get(('a', CONNECTOR, '_have_made_a_successful_connection'), 'U')) == 'T':
                self.add_viol("reconnect-abandoned", "the connection service is stopped after a connection loss although "
                              "a connection had been established before and nobody asked to stop",
                              site="%s:%d" % (ctx.cls.file, call.lineno))
            st = st.cp()
            st[('e', 'svc_stopped')] = 'T'
        # (a) continuations handed to Twisted
        for cid in conts:
            st = st.cp()
            st[('k', cid)] = 'T'
        return st

    def _instantiate(self, cname, st):
        c = self.ALL[cname]
        st = st.cp()
        if ('m', cname) in st:
            self.add_viol("second-instance", "a second %s is created" % cname)
        st[('m', cname)] = c.initial
        # class-level constant defaults and constants assigned by the constructor
        for n in c.node.body:
            if isinstance(n, ast.Assign) and len(n.targets) == 1 and isinstance(n.targets[0], ast.Name) and isinstance(n.value, ast.Constant) \
                    and (n.value.value is None or isinstance(n.value.value, bool)):
                st[('a', cname, n.targets[0].id)] = C(n.value.value)
        for mname in ("__init__", "__attrs_post_init__"):
            fn = c.methods.get(mname)
            if fn is None:
                continue
            for n in ast.walk(fn):
                if isinstance(n, ast.Assign) and len(n.targets) == 1:
                    t = n.targets[0]
                    if isinstance(t, ast.Attribute) and isinstance(t.value, ast.Name) and t.value.id == "self" and isinstance(n.value, ast.Constant) \
                            and (n.value.value is None or isinstance(n.value.value, bool)):
                        st[('a', cname, t.attr)] = C(n.value.value)
        return st

    def run_continuation(self, cid, st):
        cls, what = self.continuations[cid]
        st = st.cp()
        st[('k', cid)] = 'F'
        if isinstance(what, str):
            fn = cls.inputs.get(what) or cls.methods[what]
            locs = {a.arg: 'U' for a in fn.args.args[1:]}
            if what in cls.inputs:
                return self.fire(cls, what, st, locs)
            return self.run_method(cls, what, st, locs)
        locs = {a.arg: 'U' for a in what.args.args}
        self.stack.append(cid)
        try:
            if isinstance(what, ast.FunctionDef):
                res = []
                for (s2, l2, out) in self.run_block(what.body, st, Ctx(cls, dict(locs))):
                    if out and out[0] == 'raise':
                        res.append((s2, 'U', out))
                    else:
                        res.append((s2, out[1] if out and out[0] == 'return' else C(None), None))
                return res
            return self.eval_expr(what.body, st, Ctx(cls, locs))
        finally:
            self.stack.pop()

    def run_method(self, cls, meth, st, locs, is_output=False):
        fn = cls.outputs[meth] if is_output else cls.methods[meth]
        if len(self.stack) > self.max_depth:
            raise AnalysisError("call depth exceeded at %s.%s (unbounded re-entrancy?)" % (cls.name, meth))
        self.stack.append("%s.%s" % (cls.name, meth))
        try:
            res = []
            for (s2, l2, out) in self.run_block(fn.body, st, Ctx(cls, dict(locs))):
                if out and out[0] == 'return':
                    res.append((s2, out[1], None))
                elif out and out[0] == 'raise':
                    res.append((s2, 'U', out))
                else:
                    res.append((s2, C(None), None))
            seen = {}
            for (s, v, o) in res:
                seen[(s.key(), v, o)] = (s, v, o)
            return list(seen.values())
        finally:
            self.stack.pop()

    def fire(self, cls, inp, st, inlocs):
        if ('m', cls.name) not in st:
            self.add_viol("no-instance", "%s.%s is fired before a %s exists" % (cls.name, inp, cls.name))
            st = st.cp()
            st[('e', 'failed')] = 'T'
            return [(st, 'U', ('raise', 'AttributeError'))]
        cur = st[('m', cls.name)]
        self.stack.append("%s[%s].%s" % (cls.name, cur, inp))
        try:
            row = cls.rows.get((cur, inp))
            if row is None:
                self.add_viol("NoTransition", "%s[%s].%s" % (cls.name, cur, inp),
                              site="%s:%d" % (cls.file, cls.inputs[inp].lineno))
                st = st.cp()
                st[('e', 'failed')] = 'T'
                return [(st, 'U', ('raise', 'NoTransition'))]
            self.fired_rows.add((cls.name, cur, inp))
            st = st.cp()
            st[('m', cls.name)] = row.enter
            if cls.name == "_SortedKey" and inp == "got_pake_bad" \
                    and st.get(('a', 'Boss', '_result')) == C("empty"):
                st[('e', 'pake_bad')] = 'T'
            cur_states = [(st, None, 'U')]
            first = True
            for o in row.outputs:
                fn = cls.outputs[o]
                ps = [a.arg for a in fn.args.args][1:]
                locs = {p_: inlocs.get(p_, 'U') for p_ in ps}
                nxt = {}
                for (s, out, val) in cur_states:
                    if out:
                        nxt[(s.key(), out, val)] = (s, out, val)
                        continue
                    for (s2, v, o2) in self.run_method(cls, o, s, locs, is_output=True):
                        v_keep = v if first else val
                        nxt[(s2.key(), o2, v_keep)] = (s2, o2, v_keep)
                cur_states = list(nxt.values())
                first = False
            # collector=first idiom: the input returns the first output's value
            return [(s, (val if row.collector else 'U'), o) for (s, o, val) in cur_states]
        finally:
            self.stack.pop()

    def eval_expr(self, e, st, ctx):
        """evaluate an expression including side effects -> [(state, value, outcome)]"""
        if isinstance(e, ast.Call):
            states = [(st, [], {}, None)]
            for a in e.args:
                nxt = []
                for (s, av, kv, o) in states:
                    if o:
                        nxt.append((s, av, kv, o))
                        continue
                    if isinstance(a, ast.Starred):
                        nxt.append((s, av + ['U'], kv, None))
                        continue
                    for (s2, v, o2) in self.eval_expr(a, s, ctx):
                        nxt.append((s2, av + [v], kv, o2))
                states = nxt
            for k in e.keywords:
                nxt = []
                for (s, av, kv, o) in states:
                    if o:
                        nxt.append((s, av, kv, o))
                        continue
                    for (s2, v, o2) in self.eval_expr(k.value, s, ctx):
                        kv2 = dict(kv)
                        if k.arg:
                            kv2[k.arg] = v
                        nxt.append((s2, av, kv2, o2))
                states = nxt
            res = []
            for (s, av, kv, o) in states:
                if o:
                    res.append((s, 'U', o))
                else:
                    res.extend(self.do_call(e, s, ctx, av, kv))
            return res
        if not _has_call(e):
            return [(st, self.ev(e, st, ctx), None)]
        if isinstance(e, (ast.Lambda, ast.GeneratorExp, ast.ListComp, ast.SetComp, ast.DictComp)):
            return [(st, 'U', None)]
        states = [(st, None)]
        for c in ast.iter_child_nodes(e):
            if _has_call(c):
                nxt = []
                for (s, o) in states:
                    if o:
                        nxt.append((s, o))
                        continue
                    for (s2, v, o2) in self.eval_expr(c, s, ctx):
                        nxt.append((s2, o2))
                states = nxt
        return [(s, self.ev(e, s, ctx) if not o else 'U', o) for (s, o) in states]

    @staticmethod
    def handler_names(h):
        if h.type is None:
            return ["*"]
        if isinstance(h.type, ast.Tuple):
            return [getattr(x, "id", getattr(x, "attr", "?")) for x in h.type.elts]
        return [getattr(h.type, "id", getattr(h.type, "attr", "?"))]

    def matches(self, h, exc):
        names = self.handler_names(h)
        if "*" in names or "Exception" in names or "BaseException" in names:
            return True
        return exc in names

    def run_block(self, stmts, st, ctx):
        cur = [(st, ctx.locs, None)]
        for stmt in stmts:
            nxt = {}
            for (s, locs, out) in cur:
                if out:
                    nxt[(s.key(), lkey(locs), out)] = (s, locs, out)
                    continue
                for (s2, l2, o2) in self.run_stmt(stmt, s, Ctx(ctx.cls, locs, ctx.exc)):
                    nxt[(s2.key(), lkey(l2), o2)] = (s2, l2, o2)
            cur = list(nxt.values())
        return cur

    @staticmethod
    def _symbolic(node, v):
        if isinstance(v, C) and isinstance(v.v, str):
            return v
        if isinstance(node, ast.Constant) and isinstance(node.value, str):
            return C(node.value)
        if isinstance(node, ast.Call):
            f = node.func
            name = f.id if isinstance(f, ast.Name) else (f.attr if isinstance(f, ast.Attribute) else None)
            if name:
                return C(name + "()")
        if isinstance(node, ast.Name):
            return C("<%s>" % node.id)
        return 'U'

    def _check_verdict(self, sym, st, ctx, stmt):
        """C08.R2 in the product: the verdict stored in Boss._result must match what has been observed"""
        if not isinstance(sym, C):
            self.add_viol("verdict", "Boss._result is assigned a value the analysis cannot name (%s)" % ast.unparse(stmt.value),
                          site="%s:%d" % (ctx.cls.file, stmt.lineno))
            return
        g = lambda k: st.get(('e', k), 'F')
        good = g('noexc_CryptoError') == 'T'
        bad = g('exc_CryptoError') == 'T' or g('pake_bad') == 'T'
        top = self.stack[0] if self.stack else ""
        v = sym.v
        where = "%s:%d" % (ctx.cls.file, stmt.lineno)
        if v == "happy" and not good:
            self.add_viol("verdict", "'happy' without any peer message having decrypted", site=where)
        elif v == "LonelyError()" and (good or bad):
            self.add_viol("verdict", "LonelyError although a peer message was %s" % ("decrypted" if good else "undecryptable"), site=where)
        elif v == "WrongPasswordError()" and not bad:
            self.add_viol("verdict", "WrongPasswordError without an undecryptable peer message / unusable PAKE", site=where)
        elif v == "ServerError()" and not top.startswith("srv.error"):
            self.add_viol("verdict", "ServerError outside the handling of a server `error` message (in %s)" % top, site=where)
        elif v == "<welcome_error>" and not top.startswith("srv.welcome-error"):
            self.add_viol("verdict", "WelcomeError outside the handling of an error welcome (in %s)" % top, site=where)
        elif v not in VERDICT_MOOD and v not in ("<err>", "empty"):
            self.add_viol("verdict", "unknown verdict %s stored in Boss._result" % v, site=where)

    def _assign_attr(self, s2, cls, attr, v):
        k = ('a', cls.name, attr)
        if k not in s2:
            if isinstance(v, D) and len(v.d) <= 4:
                # a decoded message kept in an attribute: from now on the attribute is tracked (its emptiness and keys matter)
                s2 = s2.cp()
                s2[k] = v
            return s2
        vv = v
        cur = s2[k]
        if isinstance(vv, D) and len(vv.d) <= 4 and not isinstance(cur, (FL, FS)) and (cls.name, attr) not in TRACKED_DICTS:
            s2 = s2.cp()
            s2[k] = vv
            return s2
        if isinstance(cur, FL):
            vv = v if isinstance(v, FL) else 'U'
        elif isinstance(cur, FS) or isinstance(vv, D):
            vv = vv if isinstance(vv, FS) else 'U'
        if (cls.name, attr) in TRACKED_INTS:
            s2 = s2.cp()
            s2[k] = vv if isinstance(vv, C) and isinstance(vv.v, int) else 'U'
            return s2
        if vv in ('U', 'N') or isinstance(vv, K):
            vv = 'T'   # T3: values stored into nullable attributes are non-empty objects
        if isinstance(vv, C) and not (vv.v is None or isinstance(vv.v, bool)):
            vv = 'T' if vv.v else 'F'
        if isinstance(vv, (TUP, METH, OBJV, MATCH)):
            vv = truth(vv)
        s2 = s2.cp()
        s2[k] = vv
        return s2

    def run_stmt(self, stmt, st, ctx):
        locs = ctx.locs
        self.steps = getattr(self, "steps", 0) + 1
        if self.steps > EVENT_STEP_BUDGET:
            raise EventBudgetExceeded()
        if isinstance(stmt, (ast.Pass, ast.Import, ast.ImportFrom, ast.Global, ast.Nonlocal,
                             ast.FunctionDef, ast.ClassDef)):
            return [(st, locs, None)]
        if isinstance(stmt, ast.Delete):
            for t in stmt.targets:
                if isinstance(t, ast.Attribute) or (isinstance(t, ast.Subscript) and isinstance(t.value, ast.Attribute)):
                    a = t if isinstance(t, ast.Attribute) else t.value
                    if isinstance(a.value, ast.Name) and a.value.id == "self" and ('a', ctx.cls.name, a.attr) in st:
                        st = st.cp()
                        st[('a', ctx.cls.name, a.attr)] = 'U'
            return [(st, locs, None)]
        if ctx.exc and isinstance(stmt, (ast.Expr, ast.Assign, ast.AugAssign, ast.AnnAssign, ast.Return)) \
                and self.contains_external_call(stmt, ctx):
            # an external call lexically inside a try with specific handlers may raise those exceptions
            observe = [n for n in ctx.exc if n in OBSERVED_EXC and st.get(('a', 'Boss', '_result')) == C("empty")]
            forks = []
            for n in ctx.exc:
                sx = st
                if n in observe:
                    sx = st.cp()
                    sx[('e', 'exc_' + n)] = 'T'
                forks.append((sx, locs, ('raise', n)))
            if observe:
                st = st.cp()
                for n in observe:
                    st[('e', 'noexc_' + n)] = 'T'
            return forks + self._run_simple(stmt, st, ctx)
        return self._run_simple(stmt, st, ctx)

    SET_OPS = (ast.BitOr, ast.BitAnd, ast.BitXor, ast.Sub)

    def _container_type_error(self, stmt, st, ctx):
        """`a | b`, `a & b`, `a ^ b`, `a - b` (and their augmented forms) with an operand that is a list: TypeError"""
        cand = getattr(stmt, "_vt_setops", None)
        if cand is None:
            if isinstance(stmt, (ast.If, ast.While)):
                roots = [stmt.test]
            elif isinstance(stmt, (ast.For, ast.With, ast.Try, ast.FunctionDef, ast.ClassDef)):
                roots = []
            else:
                roots = [stmt]
            cand = [n for root in roots for n in ast.walk(root)
                    if isinstance(n, (ast.BinOp, ast.AugAssign)) and isinstance(n.op, self.SET_OPS)]
            try:
                stmt._vt_setops = cand
            except AttributeError:
                pass
        if not cand:
            return None
        for root in (0,):
            for n in cand:
                if isinstance(n, ast.BinOp) and isinstance(n.op, self.SET_OPS):
                    a, b = kind_of(self.ev(n.left, st, ctx)), kind_of(self.ev(n.right, st, ctx))
                elif isinstance(n, ast.AugAssign) and isinstance(n.op, self.SET_OPS):
                    a, b = kind_of(self.ev(n.target, st, ctx)), kind_of(self.ev(n.value, st, ctx))
                else:
                    continue
                if (a == "list" and (b is not None or isinstance(n.op, (ast.BitOr, ast.BitAnd, ast.BitXor)))) or (b == "list" and a is not None):
                    return "%s %s %s" % (a or "?", type(n.op).__name__, b or "?")
        return None

    def _run_simple(self, stmt, st, ctx):
        locs = ctx.locs
        te = self._container_type_error(stmt, st, ctx)
        if te:
            where = self.stack[-1] if self.stack else "?"
            self.add_viol("Raise", "%s: TypeError (%s): %s" % (where, te, ast.unparse(stmt)[:70]), site="%s:%d" % (ctx.cls.file, stmt.lineno))
            st = st.cp()
            st[('e', 'failed')] = 'T'
            return [(st, locs, ('raise', 'TypeError'))]
        # v = d.pop("k"[, default])  on a local abstract dict: the key is taken out
        if isinstance(stmt, ast.Assign) and len(stmt.targets) == 1 and isinstance(stmt.targets[0], ast.Name) and isinstance(stmt.value, ast.Call) \
                and isinstance(stmt.value.func, ast.Attribute) and stmt.value.func.attr == "pop" and isinstance(stmt.value.func.value, ast.Name) \
                and isinstance(locs.get(stmt.value.func.value.id), D) and stmt.value.args and isinstance(stmt.value.args[0], ast.Constant):
            dname = stmt.value.func.value.id
            d = locs[dname]
            key = stmt.value.args[0].value
            l2 = dict(locs)
            if key in d.d:
                l2[stmt.targets[0].id] = d.d[key]
                l2[dname] = D({k_: v_ for k_, v_ in d.d.items() if k_ != key})
                return [(st, l2, None)]
            if len(stmt.value.args) > 1:
                l2[stmt.targets[0].id] = self.ev(stmt.value.args[1], st, ctx)
                return [(st, l2, None)]
            return [(st, locs, ('raise', 'KeyError'))]
        if isinstance(stmt, ast.Expr):
            return [(s, locs, o) for (s, v, o) in self.eval_expr(stmt.value, st, ctx)]
        if isinstance(stmt, ast.Return):
            if stmt.value is None:
                return [(st, locs, ('return', C(None)))]
            return [(s, locs, o or ('return', v)) for (s, v, o) in self.eval_expr(stmt.value, st, ctx)]
        if isinstance(stmt, ast.Raise):
            e = stmt.exc
            if e is None:
                name = locs.get('__caught__', 'Exception')
            else:
                f = e.func if isinstance(e, ast.Call) else e
                name = getattr(f, "id", getattr(f, "attr", "?"))
                if isinstance(e, ast.Name) and isinstance(locs.get(e.id), str) and e.id == locs.get('__caught_as__'):
                    name = locs.get('__caught__', name)
            if e is not None and name in BUILTIN_ERRORS:
                # an explicit raise of a builtin error inside the client is one of its own "cannot happen" checks:
                # reaching it under the environment is an internal failure (C14), unless T3 excludes the cause
                where = (self.stack[-1] if self.stack else "?")
                if (where, name) not in T3_EXCLUDED_RAISES:
                    self.add_viol("Raise", "%s: raise %s" % (where, name), site="%s:%d" % (ctx.cls.file, stmt.lineno))
                st = st.cp()
                st[('e', 'failed')] = 'T'
            return [(st, locs, ('raise', name))]
        if isinstance(stmt, ast.Assert):
            v = truth(self.ev(stmt.test, st, ctx))
            if v == 'F':
                where = self.stack[-1] if self.stack else "?"
                self.add_viol("Assert", "%s: %s" % (where, ast.unparse(stmt.test)),
                              site="%s:%d" % (ctx.cls.file, stmt.lineno))
                st = st.cp()
                st[('e', 'failed')] = 'T'
                return [(st, locs, ('raise', 'AssertionError'))]
            return [(st, locs, None)]
        if isinstance(stmt, (ast.Assign, ast.AugAssign, ast.AnnAssign)):
            val = stmt.value
            res = []
            for (s, v, o) in (self.eval_expr(val, st, ctx) if val is not None else [(st, 'U', None)]):
                if o:
                    res.append((s, locs, o))
                    continue
                if isinstance(stmt, ast.AugAssign):
                    t = stmt.target
                    if isinstance(t, ast.Name):
                        l2 = dict(locs)
                        l2[t.id] = 'U'
                        res.append((s, l2, None))
                    elif isinstance(t, ast.Attribute) and isinstance(t.value, ast.Name) and t.value.id == "self" \
                            and ('a', ctx.cls.name, t.attr) in s:
                        s2 = s.cp()
                        curv = s[('a', ctx.cls.name, t.attr)]
                        if (ctx.cls.name, t.attr) in TRACKED_INTS and isinstance(curv, C) and isinstance(curv.v, int) \
                                and isinstance(v, C) and isinstance(v.v, int) and isinstance(stmt.op, ast.Add) and curv.v + v.v <= 64:
                            s2[('a', ctx.cls.name, t.attr)] = C(curv.v + v.v)
                        else:
                            s2[('a', ctx.cls.name, t.attr)] = 'U'
                        res.append((s2, locs, None))
                    else:
                        res.append((s, locs, None))
                    continue
                targets = stmt.targets if isinstance(stmt, ast.Assign) else [stmt.target]
                l2 = dict(locs)
                s2 = s
                for t in targets:
                    if isinstance(t, ast.Name):
                        vl = v
                        if not isinstance(v, C) and isinstance(stmt.value, ast.Call):
                            # `result = WrongPasswordError()`: an exception object held in a local keeps its name
                            fn_ = stmt.value.func
                            nm = fn_.id if isinstance(fn_, ast.Name) else (fn_.attr if isinstance(fn_, ast.Attribute) else "")
                            if nm.endswith(("Error", "Exception")):
                                vl = C(nm + "()")
                        l2[t.id] = vl
                    elif isinstance(t, ast.Attribute) and isinstance(t.value, ast.Name) and t.value.id == "self":
                        if (ctx.cls.name, t.attr) in SYMBOLIC and ('a', ctx.cls.name, t.attr) in s2:
                            sym = self._symbolic(stmt.value, v)
                            s2 = s2.cp()
                            s2[('a', ctx.cls.name, t.attr)] = sym
                            if (ctx.cls.name, t.attr) == ("Boss", "_result"):
                                self._check_verdict(sym, s2, ctx, stmt)
                                for fl in ('noexc_CryptoError', 'exc_CryptoError', 'pake_bad'):
                                    if s2.get(('e', fl)) == 'T':
                                        s2[('e', fl)] = 'F'
                        else:
                            s2 = self._assign_attr(s2, ctx.cls, t.attr, v)
                    elif isinstance(t, (ast.Tuple, ast.List)):
                        if isinstance(v, TUP) and len(v.items) == len(t.elts):
                            for el, item in zip(t.elts, v.items):
                                if isinstance(el, ast.Name):
                                    l2[el.id] = item
                        else:
                            for el in ast.walk(t):
                                if isinstance(el, ast.Name):
                                    l2[el.id] = 'U'
                    elif isinstance(t, ast.Subscript) and isinstance(t.value, ast.Attribute) \
                            and isinstance(t.value.value, ast.Name) and t.value.value.id == "self":
                        k = ('a', ctx.cls.name, t.value.attr)
                        if k in s2 and (ctx.cls.name, t.value.attr) in TRACKED_DICTS and not isinstance(t.slice, ast.Slice):
                            kv = self.ev(t.slice, s2, Ctx(ctx.cls, l2, ctx.exc))
                            curd = s2[k]
                            s2 = s2.cp()
                            if isinstance(curd, D) and isinstance(kv, C) and len(curd.d) < 8:
                                nd = dict(curd.d)
                                nd[kv.v] = v
                                s2[k] = D(nd)
                            else:
                                s2[k] = 'U'
                        elif k in s2:
                            if isinstance(t.slice, ast.Slice) and isinstance(stmt.value, ast.List) and not stmt.value.elts \
                                    and isinstance(s2[k], FL) or (isinstance(t.slice, ast.Slice) and s2[k] == 'U'
                                                                  and (ctx.cls.name, t.value.attr) in TRACKED_LISTS
                                                                  and isinstance(stmt.value, ast.List) and not stmt.value.elts):
                                s2 = s2.cp()
                                s2[k] = FL(())
                            else:
                                s2 = s2.cp()
                                s2[k] = 'U'
                    elif isinstance(t, ast.Subscript) and isinstance(t.value, ast.Name):
                        l2[t.value.id] = 'U' if not isinstance(l2.get(t.value.id), D) else 'U'
                res.append((s2, l2, None))
            return res
        if isinstance(stmt, ast.If):
            res = []
            for (s, v, o) in self.eval_expr(stmt.test, st, ctx):
                if o:
                    res.append((s, locs, o))
                    continue
                t = truth(v)
                if t in ('T', 'U'):
                    res.extend(self.run_block(stmt.body, s, ctx))
                if t in ('F', 'U'):
                    res.extend(self.run_block(stmt.orelse, s, ctx))
            return res
        if isinstance(stmt, ast.For):
            itv = self.ev(stmt.iter, st, ctx)
            if isinstance(itv, FL):
                cur = [(st, locs, None)]
                for item in itv.items:
                    nxt = []
                    for (s, l, o) in cur:
                        if o:
                            nxt.append((s, l, o))
                            continue
                        l_in = dict(l)
                        if isinstance(stmt.target, ast.Name):
                            l_in[stmt.target.id] = item
                        elif isinstance(stmt.target, ast.Tuple) and isinstance(item, TUP) \
                                and len(item.items) == len(stmt.target.elts):
                            for el, v in zip(stmt.target.elts, item.items):
                                if isinstance(el, ast.Name):
                                    l_in[el.id] = v
                        else:
                            for n in ast.walk(stmt.target):
                                if isinstance(n, ast.Name):
                                    l_in[n.id] = 'U'
                        for (s2, l2, o2) in self.run_block(stmt.body, s, Ctx(ctx.cls, l_in, ctx.exc)):
                            if o2 and o2[0] == 'break':
                                nxt.append((s2, l2, ('brk',)))
                            elif o2 and o2[0] == 'continue':
                                nxt.append((s2, l2, None))
                            else:
                                nxt.append((s2, l2, o2))
                    cur = nxt
                out = []
                for (s, l, o) in cur:
                    if o and o[0] == 'brk':
                        out.append((s, l, None))
                    elif o is None and stmt.orelse:
                        out.extend(self.run_block(stmt.orelse, s, Ctx(ctx.cls, l, ctx.exc)))
                    else:
                        out.append((s, l, o))
                return out
        if isinstance(stmt, (ast.For, ast.While)):
            seen = {(st.key(), lkey(locs))}
            exits = []
            work = [(st, locs)]
            n_iter = 0
            while work:
                n_iter += 1
                if n_iter > 20000:
                    raise AnalysisError("loop fixpoint did not converge in %s" % (self.stack[-1] if self.stack else "?"))
                s, l = work.pop()
                c2 = Ctx(ctx.cls, l, ctx.exc)
                if isinstance(stmt, ast.While):
                    tests = self.eval_expr(stmt.test, s, c2)
                else:
                    tests = [(s, 'U', None)]
                for (s, tv, o) in tests:
                    if o:
                        exits.append((s, l, o))
                        continue
                    v = truth(tv)
                    if v in ('F', 'U'):
                        exits.append((s, l, None))
                    if v in ('T', 'U'):
                        l_in = dict(l)
                        if isinstance(stmt, ast.For):
                            for n in ast.walk(stmt.target):
                                if isinstance(n, ast.Name):
                                    l_in[n.id] = 'U'
                        for (s2, l2, o2) in self.run_block(stmt.body, s, Ctx(ctx.cls, l_in, ctx.exc)):
                            if o2 and o2[0] == 'break':
                                exits.append((s2, l2, None))
                            elif o2 and o2[0] in ('return', 'raise'):
                                exits.append((s2, l2, o2))
                            else:
                                k = (s2.key(), lkey(l2))
                                if k not in seen:
                                    seen.add(k)
                                    work.append((s2, l2))
            return exits
        if isinstance(stmt, ast.Break):
            return [(st, locs, ('break',))]
        if isinstance(stmt, ast.Continue):
            return [(st, locs, ('continue',))]
        if isinstance(stmt, ast.With):
            cur = [(st, locs, None)]
            for it in stmt.items:
                nxt = []
                for (s, l, o) in cur:
                    if o:
                        nxt.append((s, l, o))
                        continue
                    for (s2, v, o2) in self.eval_expr(it.context_expr, s, Ctx(ctx.cls, l, ctx.exc)):
                        l2 = l
                        if it.optional_vars is not None and isinstance(it.optional_vars, ast.Name):
                            l2 = dict(l)
                            l2[it.optional_vars.id] = 'U'
                        nxt.append((s2, l2, o2))
                cur = nxt
            out = []
            for (s, l, o) in cur:
                if o:
                    out.append((s, l, o))
                else:
                    out.extend(self.run_block(stmt.body, s, Ctx(ctx.cls, l, ctx.exc)))
            return out
        if isinstance(stmt, ast.Try):
            specific = []
            for h in stmt.handlers:
                for n in self.handler_names(h):
                    if n not in ("*", "Exception", "BaseException"):
                        specific.append(n)
            inner_exc = tuple(specific) + tuple(x for x in ctx.exc if x not in specific)
            cur = self.run_block(stmt.body, st, Ctx(ctx.cls, locs, inner_exc))
            res = []
            for (s, l, o) in cur:
                if o and o[0] == 'raise':
                    for h in stmt.handlers:
                        if self.matches(h, o[1]):
                            l2 = dict(l)
                            l2['__caught__'] = o[1]
                            if h.name:
                                l2[h.name] = 'T'
                                l2['__caught_as__'] = h.name
                            self.stack.append("except %s" % "/".join(self.handler_names(h)))
                            try:
                                res.extend(self.run_block(h.body, s, Ctx(ctx.cls, l2, ctx.exc)))
                            finally:
                                self.stack.pop()
                            break
                    else:
                        res.append((s, l, o))
                elif o is None:
                    res.extend(self.run_block(stmt.orelse, s, Ctx(ctx.cls, l, ctx.exc)))
                else:
                    res.append((s, l, o))
            if stmt.finalbody:
                out = []
                for (s, l, o) in res:
                    for (s2, l2, o2) in self.run_block(stmt.finalbody, s, Ctx(ctx.cls, l, ctx.exc)):
                        out.append((s2, l2, o2 or o))
                res = out
            return res
        raise AnalysisError("%s:%d: statement kind %s is not supported by the typestate interpreter" % (
            ctx.cls.file, getattr(stmt, "lineno", 0), type(stmt).__name__))

    # -- initial state -------------------------------------------------------
    def initial_state(self):
        st = S(self.ix)
        for c in CLIENT:
            st[('m', c)] = self.ALL[c].initial
        for cname in CLIENT + [CONNECTOR] + (list(DILATION_PLAIN) if self.dilation else []):
            c = self.ALL[cname]
            for mname in ("__init__", "__attrs_post_init__", "_init_other_state"):
                fn = c.methods.get(mname)
                if not fn:
                    continue
                for n in ast.walk(fn):
                    if isinstance(n, ast.Assign) and len(n.targets) == 1:
                        t = n.targets[0]
                        if isinstance(t, ast.Attribute) and isinstance(t.value, ast.Name) and t.value.id == "self":
                            if isinstance(n.value, ast.Constant) and (n.value.value is None or isinstance(n.value.value, bool)):
                                st[('a', cname, t.attr)] = C(n.value.value)
                            elif isinstance(n.value, ast.Call) and getattr(n.value.func, "id", None) == "set" \
                                    and not n.value.args:
                                st[('a', cname, t.attr)] = FS()
                            elif (cname, t.attr) in TRACKED_LISTS and (
                                    (isinstance(n.value, ast.List) and not n.value.elts) or
                                    (isinstance(n.value, ast.Call) and getattr(n.value.func, "id", None) == "deque" and not n.value.args)):
                                st[('a', cname, t.attr)] = FL(())
                            elif (cname, t.attr) in SYMBOLIC and isinstance(n.value, ast.Constant) \
                                    and isinstance(n.value.value, str):
                                st[('a', cname, t.attr)] = C(n.value.value)
                            elif (cname, t.attr) in TRACKED_INTS and isinstance(n.value, ast.Constant) \
                                    and isinstance(n.value.value, int):
                                st[('a', cname, t.attr)] = C(n.value.value)
                            elif (cname, t.attr) in TRACKED_DICTS and isinstance(n.value, ast.Dict) and not n.value.keys:
                                st[('a', cname, t.attr)] = D({})
            # attrs fields named _side are all wired to the one Boss._side (discharged by C02.R3)
            if "_side" in c.attr_fields:
                st[('a', cname, "_side")] = C("SIDE-OURS")
        for (cn, at) in SYMBOLIC:
            if ('a', cn, at) not in st:
                st[('a', cn, at)] = C(None)
        for (cn, at), required in TRACKED_LISTS.items():
            if required and ('a', cn, at) not in st:
                raise AnchorMissing("%s.%s is no longer initialised to [] in the constructor" % (cn, at))
        if ('a', 'Mailbox', '_processed') not in st:
            # not created by the constructor: whatever method creates it later starts it (again) from the empty set
            st[('a', 'Mailbox', '_processed')] = FS(frozenset())
        for k in (('a', CONNECTOR, '_ws'), ('a', CONNECTOR, '_stopping'),
                  ('a', CONNECTOR, '_have_made_a_successful_connection'), ('a', 'Mailbox', '_processed')):
            if k not in st:
                raise AnchorMissing("%s.%s is no longer initialised to a constant in the constructor" % (k[1], k[2]))
        return st


# ---------------------------------------------------------------- exploration
class Env:
    """Options of the environment (DESIGN.md section 3, T3)."""

    def __init__(self, phases=("pake", "version", "0"), dilate=False, reentrant=False,
                 postclose_helper=False, budget=400000, name="quick", dilation_manager=False, api=None,
                 time_budget=900.0, budget_after_violation=40000, peer_can_dilate=True):
        self.peer_can_dilate = peer_can_dilate
        self.phases = tuple(phases)
        self.dilate = dilate
        self.dilation_manager = dilation_manager
        self.api = tuple(api) if api else ("set_code", "allocate_code", "input_code", "send", "helpers")
        self.time_budget = time_budget
        self.budget_after_violation = budget_after_violation
        self.reentrant = reentrant
        self.postclose_helper = postclose_helper
        self.budget = budget
        self.name = name

    def describe(self):
        return {"name": self.name, "phases": list(self.phases), "dilation_sends": self.dilate,
                "reentrant_delegate": self.reentrant, "helper_after_close": self.postclose_helper,
                "dilation_manager_in_product": self.dilation_manager, "peer_can_dilate": self.peer_can_dilate,
                "api_calls": list(self.api) + ["close"],
                "state_budget": self.budget}


class Result:
    pass


class Explorer:
    def __init__(self, prog, env):
        self.prog = prog
        self.env = env
        self.I = Interp(prog, reentrant=env.reentrant, list_bound=max(6, len(env.phases)), dilation=env.dilation_manager)
        A = self.I.ALL
        self.RC, self.B, self.In = A[CONNECTOR], A["Boss"], A["Input"]
        # anchors of the environment (fail closed when one vanishes)
        for m in ("ws_open", "ws_close", "ws_message", "_tx", "stop", "_initial_connection_failed"):
            if m not in self.RC.methods:
                raise AnchorMissing("RendezvousConnector.%s not found" % m)
        for m in ("set_code", "allocate_code", "input_code"):
            if m not in self.B.methods:
                raise AnchorMissing("Boss.%s not found" % m)
        for i in ("send", "close", "error"):
            if i not in self.B.inputs:
                raise AnchorMissing("Boss input %s not found" % i)
        self.helper_inputs = [i for i in ("refresh_nameplates", "get_nameplate_completions", "get_word_completions",
                                          "choose_words") if i in self.In.inputs]
        if len(self.helper_inputs) != 4 or "choose_nameplate" not in self.In.methods:
            raise AnchorMissing("Input helper API changed")
        if "send" not in A["Send"].inputs or "stoppedD" not in A["Terminator"].inputs:
            raise AnchorMissing("Send.send / Terminator.stoppedD not found")
        self.handlers = sorted(m for m in self.RC.methods if m.startswith("_response_handle_"))
        need = {"welcome", "error", "claimed", "released", "closed", "allocated", "nameplates", "message", "ack"}
        have = {h[len("_response_handle_"):] for h in self.handlers}
        if not need <= have:
            raise AnchorMissing("RendezvousConnector response handlers missing: %s" % sorted(need - have))
        self.unknown_handlers = sorted(have - need)
        # Boss states from which no application delivery happens any more: every state that declares
        # `close` as a self-loop without outputs (closing) or is terminal (closed)
        self.closing_states = {st for st in self.B.states
                               if (self.B.row(st, "close") is not None and self.B.row(st, "close").enter == st
                                   and not self.B.row(st, "close").outputs) or self.B.states[st]["terminal"]}
        if not self.closing_states:
            raise AnchorMissing("Boss has no closing/closed state (close self-loop without outputs)")

    # -- helpers -----------------------------------------------------------
    @staticmethod
    def top(results):
        return [s for (s, v, o) in results]

    def mark(self, s, k):
        s = s.cp()
        s[('e', k)] = 'T'
        return s

    def unmark(self, s, k):
        s = s.cp()
        s[('e', k)] = 'F'
        return s

    def clear_pend(self, s):
        s = s.cp()
        for k, _v in list(s.items()):
            if k[0] == 'e' and (k[1].startswith('pend_') or k[1] in ('mb_open', 'bound')):
                s[k] = 'F'
        return s

    def server_msg(self, st, mtype, fields=None):
        d = {"type": C(mtype)}
        d.update(fields or {})
        I = self.I
        return self.top(I.run_method(self.RC, "ws_message", st, {"payload": D(d)}))

    def body_of(self, side, phase):
        """abstract payload of a message.  With the dilation manager in the product the peer's dilation messages carry
        their type (T3: a conformant peer sends `please` as dilate-0 and connection hints afterwards)"""
        if not self.env.dilation_manager or side != "SIDE-THEIRS":
            return 'T'
        if phase == "version":
            if not self.env.peer_can_dilate:
                return D({"app_versions": 'U'})       # an old peer: no `can-dilate` entry at all
            return D({"app_versions": 'U', "can-dilate": 'U'})
        if phase == "dilate-0":
            return D({"type": C("please"), "side": 'T'})
        if phase.startswith("dilate-"):
            return D({"type": C("connection-hints"), "hints": 'U'})
        return 'T'

    def srvdone(self, s, h):
        if h == "allocated":
            s = self.mark(s, 'alloc_answered')
        if h == "released":
            s = self.unmark(s, 'srv_claimed')
            s = self.unmark(s, 'srv_alloc_claim')      # the claim of (side, nameplate) is one claim, however it was made
        if h == "closed":
            s = self.unmark(s, 'srv_mb')
        return s

    # -- the environment -----------------------------------------------------
    def events(self, st):
        I, env = self.I, self.env
        A = I.ALL
        g = lambda k: st.get(('e', k), 'F')
        ws = truth(st[('a', CONNECTOR, '_ws')])
        evs = []
        api_open = g('api_closed') != 'T' and g('app_closed') != 'T'
        B, RC = self.B, self.RC
        if api_open:
            for m in ("set_code", "allocate_code", "input_code"):
                if m in env.api:
                    evs.append(("api." + m, lambda s, m=m: self.top(I.run_method(B, m, s, {}))))
            if "send" in env.api:
                evs.append(("api.send", lambda s: self.top(I.fire(B, "send", s, {}))))
            if env.dilate and g('dilating') != 'T':
                evs.append(("api.dilate", lambda s: [self.mark(s, 'dilating')]))
            if env.dilation_manager and g('dilating') != 'T':
                evs.append(("api.dilate", lambda s: self.top(I.run_method(B, "dilate", self.mark(s, 'dilating'), {}))))
        if g('app_closed') != 'T':
            evs.append(("api.close", lambda s: self.top(I.fire(B, "close", self.mark(s, 'api_closed'), {}))))
        if "helpers" in env.api and st[('m', 'Input')] != self.In.initial and (api_open or (env.postclose_helper and g('app_closed') != 'T')):
            for m in self.helper_inputs:
                evs.append(("helper." + m, lambda s, m=m: self.top(I.fire(self.In, m, s, {}))))
            evs.append(("helper.choose_nameplate", lambda s: self.top(I.run_method(self.In, "choose_nameplate", s, {}))))
        if env.dilate and g('dilating') == 'T' and g('d_stopped') != 'T' and g('d_stop_pending') != 'T':
            evs.append(("dilation.Send.send", lambda s: self.top(
                I.fire(A["Send"], "send", s, {"phase": C("dilate-0"), "plaintext": 'T'}))))
        dead = g('rc_dead') == 'T'
        stopping = g('svc_stopped') == 'T' and not dead
        if ws == 'F' and not dead and not stopping:
            evs.append(("ws_open", lambda s: self.top(I.run_method(RC, "ws_open", s, {"proto": "T"}))))
            # the WebSocket negotiation of a (re)connection attempt fails: onClose without onOpen
            evs.append(("ws_negotiation_failed", lambda s: self.top(I.run_method(RC, "ws_close", s, {}))))
            if truth(st[('a', CONNECTOR, '_have_made_a_successful_connection')]) == 'F':
                # ClientService gives up on the very first attempt (failAfterFailures=1)
                evs.append(("initial_connection_failed",
                            lambda s: self.top(I.run_method(RC, "_initial_connection_failed", s, {"f": 'T'}))))
        if ws == 'T' and not stopping:
            evs.append(("ws_close", lambda s: [self.clear_pend(x) for x in self.top(
                I.run_method(RC, "ws_close", s, {}))]))
            evs.append(("srv.welcome", lambda s: self.server_msg(s, "welcome", {"welcome": D({"motd": 'T'})})))
            evs.append(("srv.welcome-error", lambda s: self.server_msg(
                s, "welcome", {"welcome": D({"error": 'T'})})))
            evs.append(("srv.error", lambda s: self.server_msg(s, "error", {"error": 'T', "orig": 'T'})))
            evs.append(("srv.ack", lambda s: self.server_msg(s, "ack", {})))
            for t, h, f in (("claim", "claimed", {"mailbox": 'T'}), ("release", "released", {}),
                            ("close", "closed", {}), ("allocate", "allocated", {"nameplate": 'T'})):
                if g('pend_' + t) == 'T':
                    evs.append(("srv." + h, lambda s, t=t, h=h, f=f: self.server_msg(
                        self.srvdone(self.unmark(s, 'pend_' + t), h), h, f)))
            if g('pend_list') == 'T':
                evs.append(("srv.nameplates", lambda s: self.server_msg(s, "nameplates", {"nameplates": 'U'})))
            if g('mb_open') == 'T':
                for side in ("SIDE-OURS", "SIDE-THEIRS"):
                    for ph in env.phases:
                        evs.append(("srv.message(%s,%s)" % (side[5:], ph), lambda s, side=side, ph=ph: self.server_msg(
                            s, "message", {"side": C(side), "phase": C(ph), "body": self.body_of(side, ph)})))
        if stopping:
            # ClientService.stopService(): the open connection (if any) is closed, then its Deferred fires
            def service_stopped(s):
                s = self.mark(s, 'rc_dead')
                if truth(s[('a', CONNECTOR, '_ws')]) == 'T':
                    return [self.clear_pend(x) for x in self.top(I.run_method(RC, "ws_close", s, {}))]
                return [s]
            evs.append(("service_stopped", service_stopped))
        # continuations handed to Twisted (Deferred callbacks); those of a stopping service fire once it has stopped
        if not stopping:
            for k, v in st.items():
                if k[0] == 'k' and v == 'T':
                    if k[1].startswith("Dilator.") and ('m', 'Manager') in st and not A["Manager"].states[st[('m', 'Manager')]]["terminal"]:
                        continue    # chained on Manager.when_stopped(): fires once the manager has stopped
                    evs.append(("deferred:" + k[1], lambda s, cid=k[1]: self.top(I.run_continuation(cid, s))))
        if env.dilation_manager and ('m', 'Manager') in st:
            M = A["Manager"]
            ms = st[('m', 'Manager')]
            # the Connector reports a selected connection only while the manager is waiting for one ...
            if any(r.src == ms for r in M.rows_on("connection_made")):
                evs.append(("connector.connection_made", lambda s: self.top(I.run_method(M, "connector_connection_made", s, {"c": 'T'}))))
            # ... and the loss of the connection in use at any later time
            if any(r.src == ms for r in M.rows_on("connection_lost_leader")) or any(r.src == ms for r in M.rows_on("connection_lost_follower")):
                evs.append(("connector.connection_lost", lambda s: self.top(I.run_method(M, "connector_connection_lost", s, {}))))
        if g('d_stop_pending') == 'T':
            evs.append(("dilator_stopped", lambda s: self.top(I.fire(
                A["Terminator"], "stoppedD", self.mark(self.unmark(s, 'd_stop_pending'), 'd_stopped'), {}))))
        return evs

    # -- search ----------------------------------------------------------------
    def run(self, seed=0):
        I = self.I
        t0 = time.time()
        sys.setrecursionlimit(max(sys.getrecursionlimit(), 20000))
        s0 = I.initial_state()
        seen = {s0.key(): (None, None)}
        states = {s0.key(): s0}
        edges = collections.defaultdict(set)
        q = collections.deque([s0])
        ntrans = 0
        exhausted = True
        events_used = collections.Counter()
        budget_events = collections.Counter()
        while q:
            # budgets: a state budget per environment, a wall-clock budget, and - once something was found - a much
            # smaller one (a broken tree can blow the state space up; the violations nearest to the initial state
            # are found first by the breadth-first order and are enough for a verdict)
            if len(seen) > self.env.budget or (time.time() - t0) > self.env.time_budget or \
                    (I.viol and len(seen) > self.env.budget_after_violation):
                exhausted = False
                break
            s = q.popleft()
            evs = self.events(s)
            if seed:
                evs = evs[seed % len(evs):] + evs[:seed % len(evs)] if evs else evs
            for name, f in evs:
                I.stack[:] = [name]
                before = len(I.viol)
                I.steps = 0
                try:
                    succ = f(s)
                except EventBudgetExceeded:
                    # one event forked beyond its budget: its successors are not explored (the verdict covers what was explored)
                    exhausted = False
                    budget_events[name.split("(")[0]] += 1
                    succ = []
                if len(I.viol) > before:
                    for k in list(I.viol)[before:]:
                        I.viol[k].state_key = s.key()
                        I.viol[k].event = name
                events_used[name.split("(")[0]] += 1
                for s2 in succ:
                    if s2.get(('e', 'failed')) == 'T':
                        continue
                    if self.env.dilation_manager and ('m', 'Manager') in s2 and s2.get(('e', 'ev_got_versions')) == 'T' \
                            and s2[('m', 'Manager')] == A_MANAGER_INITIAL(I):
                        # C17: once the peer's versions are known and dilate() was called, the Manager has been told (it left its
                        # initial state: it either asks the peer to dilate or fails the pending connect()s)
                        n0 = len(I.viol)
                        I.stack[:] = [name]
                        I.add_viol("versions-not-forwarded", "the application has the peer's versions and dilate() was called, but the dilation "
                                   "Manager is still %s: it never learns whether the peer can dilate" % s2[('m', 'Manager')])
                        if len(I.viol) > n0:
                            kk = list(I.viol)[-1]
                            I.viol[kk].state_key = s.key()
                            I.viol[kk].event = name
                    if name in POST_CLOSING and s2[('m', 'Boss')] not in self.closing_states:
                        I.stack[:] = [name]
                        n0 = len(I.viol)
                        I.add_viol("ignored", "%s leaves the Boss in %s (not closing)" % (name, s2[('m', 'Boss')]))
                        if len(I.viol) > n0:
                            kk = list(I.viol)[-1]
                            I.viol[kk].state_key = s.key()
                            I.viol[kk].event = name
                    ntrans += 1
                    k = s2.key()
                    edges[s.key()].add(k)
                    if k not in seen:
                        states[k] = s2
                        seen[k] = (s.key(), name)
                        q.append(s2)
        r = Result()
        r.seen, r.states, r.edges = seen, states, edges
        r.nstates, r.ntrans, r.exhaustive = len(seen), ntrans, exhausted
        r.wall = time.time() - t0
        r.viol = I.viol
        r.events_used = events_used
        r.budget_events = dict(budget_events)
        r.fired_rows = set(I.fired_rows)
        r.app_events = set(I.app_events_seen)
        r.env = self.env
        r.unknown_handlers = self.unknown_handlers
        self._invariants(r)
        return r

    def path(self, r, k):
        p = []
        while r.seen[k][0] is not None:
            p.append(r.seen[k][1])
            k = r.seen[k][0]
        return list(reversed(p))

    def _invariants(self, r):
        """C09.R4 re-issue invariant and C08.R5 EF-closed, over the reachable set."""
        A = self.I.ALL
        RESP = {"rx_claimed": "claim", "rx_released": "release", "rx_closed": "close",
                "rx_allocated": "allocate", "rx_nameplates": "list"}
        awaiting = []
        for cn in CLIENT:
            m = A[cn]
            for row in m.rows.values():
                if row.inp in RESP and row.enter != row.src:
                    awaiting.append((cn, row.src, RESP[row.inp]))
        r.awaiting = awaiting
        from .tablerules import opened_states
        opened = opened_states(A["Mailbox"], ".tx_open")
        inv_fail = {}
        n_conn = 0
        for k in r.seen:
            d = r.states[k]
            if truth(d[('a', CONNECTOR, '_ws')]) != 'T':
                continue
            n_conn += 1
            for (cn, s_, req) in awaiting:
                if d[('m', cn)] == s_ and d.get(('e', 'pend_' + req), 'F') != 'T':
                    inv_fail.setdefault((cn, s_, req), k)
            if d[('m', 'Mailbox')] in opened and d.get(('e', 'mb_open'), 'F') != 'T':
                inv_fail.setdefault(('Mailbox', d[('m', 'Mailbox')], 'open'), k)
        r.inv_fail = {f: self.path(r, k) for f, k in inv_fail.items()}
        r.connected_states = n_conn
        # EF closed
        good = {k for k in r.seen if r.states[k].get(('e', 'app_closed')) == 'T'}
        preds = collections.defaultdict(set)
        for a, bs in r.edges.items():
            for b in bs:
                preds[b].add(a)
        work = list(good)
        while work:
            x = work.pop()
            for p_ in preds[x]:
                if p_ not in good:
                    good.add(p_)
                    work.append(p_)
        closing = [k for k in r.seen if r.states[k].get(('e', 'api_closed')) == 'T']
        stuck = [k for k in closing if k not in good]
        if not r.exhaustive:
            stuck = []      # the graph is truncated: unexplored frontier states have no successors yet
        r.closing_states = len(closing)
        r.stuck = [(self.path(r, k), r.states[k].machines()) for k in stuck[:5]]
        r.n_stuck = len(stuck)
        r.closed_states = sum(1 for k in r.seen if r.states[k].get(('e', 'app_closed')) == 'T')
        for v in r.viol.values():
            v.path = self.path(r, v.state_key) + [v.event] if v.state_key is not None else []


def A_MANAGER_INITIAL(I):
    return I.ALL["Manager"].initial


# events after which the wormhole must be closing or closed (C08: the server said so / the application said so)
POST_CLOSING = ("srv.error", "srv.welcome-error", "api.close")


ENVS = {
    "quick": Env(name="quick", budget=120000, time_budget=240.0),
    "dilate": Env(dilate=True, name="dilate"),
    "reentrant": Env(reentrant=True, name="reentrant"),
    "postclose": Env(postclose_helper=True, name="postclose-helper"),
    "phases4": Env(phases=("pake", "version", "0", "1"), name="phases4"),
    "phases-dilate": Env(phases=("pake", "version", "0", "dilate-0"), name="phases-dilate"),
    "phases-unknown": Env(phases=("pake", "version", "0", "weird"), name="phases-unknown"),
    "dilation": Env(phases=("pake", "version", "dilate-0", "dilate-1"), dilation_manager=True, api=("set_code",), name="dilation",
                    budget=120000, time_budget=240.0),
    "dilation-oldpeer": Env(phases=("pake", "version", "dilate-0"), dilation_manager=True, api=("set_code",), name="dilation-oldpeer",
                            budget=120000, time_budget=240.0, peer_can_dilate=False),
    "dilation-full": Env(phases=("pake", "version", "dilate-0", "dilate-1"), dilation_manager=True, name="dilation-full"),
}


def explore(tree, envname="quick", seed=0, prog=None):
    prog = prog or Program(tree)
    ex = Explorer(prog, ENVS[envname])
    return ex.run(seed)
