"""Rules added after the ninth seed round (additive features / new paths, optimisations).

The common theme: the existing mechanism is untouched and a NEW path reaches the same resource beside it.  So these rules are closed-world
statements about a resource - who may read the received queue, who may call the record parser, who may hand hints to the Connector, who may
start a delayed call or a delayed connection attempt and what must happen to its handle - rather than statements about one function body.
Each is a necessary condition of the property it is filed under (the docstring says which behaviour breaks), phrased over the resolved
tree (new helpers are already inlined by sa/inline.py, so a wrapper that does what the caller did inline is invisible here).
"""
import ast

from .srcmodel import AnalysisError, site
from .astutil import dotted, is_self_attr, params, enclosing_function
from .cfg import build, cmp_atom, in_atom


def _methods(tree, rel, cls):
    c = tree.cls(rel, cls)
    return {f.name: f for f in c.body if isinstance(f, (ast.FunctionDef, ast.AsyncFunctionDef))}


def _calls(fn):
    return [c for c in ast.walk(fn) if isinstance(c, ast.Call)]


# ---------------------------------------------------------------------------------------------------------------------------------
# C03.R9 single reader of the received-message queue

def single_reader(tree, rep, rule, rel="src/wormhole/wormhole.py", cls="_DeferredWormhole", obs="_received_observer", api="get_message"):
    """The application's read of the next peer message is ONE hand-over: get_message() returns the observer's Deferred itself.  A second
    method of the front-end that takes a Deferred from the observer (directly or through self.get_message()) and decides itself whether to
    pass the value on is a second reader of the same queue: a message it took and did not deliver (its own timeout fired, its wrapper was
    dropped) is lost to every later get_message() - 'each message exactly once' breaks."""
    ms = _methods(tree, rel, cls)
    if api not in ms:
        raise AnalysisError("%s.%s not found" % (cls, api))
    readers = []
    for name, fn in ms.items():
        for c in _calls(fn):
            d = dotted(c.func)
            if d == "self.%s.when_next_event" % obs or (d == "self.%s" % api and name != api):
                readers.append((name, c))
    own = [c for (n, c) in readers if n == api]
    fn = ms[api]
    direct = len(own) == 1 and any(isinstance(s, ast.Return) and s.value is own[0] for s in ast.walk(fn))
    rep.check(rule, "%s.%s() returns the received-observer's Deferred itself" % (cls, api), direct, site(fn, rel), key="%s:%s:returns-observer-deferred" % (rule, api),
              what="%s.%s() no longer hands out the observer's own Deferred: what the application waits on is a second Deferred whose relation to the "
                   "queue (cancel, timeout, errors) is the wrapper's own" % (cls, api))
    others = sorted({n for (n, c) in readers if n != api})
    rep.check(rule, "no other method of %s reads the received-message queue (readers: %s)" % (cls, [api] + others), not others,
              site(next((c for (n, c) in readers if n != api), fn), rel), key="%s:%s:single-reader" % (rule, cls),
              what="%s.%s() takes a Deferred from the received-message queue beside %s(): a message handed to it and not passed on (its timeout fired, "
                   "the caller gave up) is consumed and never reaches a later %s()" % (cls, others[0] if others else "?", api, api))


# ---------------------------------------------------------------------------------------------------------------------------------
# C04.R12 / R13

def chain_keeps_failure(tree, rep, rule, rel, cls, fname, source_call):
    """Between the Deferred of the transfer coroutine (`d = self._go(w)`) and the end of go(), no errback stage may turn a failure into a
    success: go()'s Deferred is what the CLI turns into the exit status - a ConnectionClosed that is 'explained' and swallowed is reported as
    a successful transfer although the receiver does not have every byte."""
    from . import deferredchain
    fn = tree.func(rel, cls, fname)
    var = None
    for s in ast.walk(fn):
        if isinstance(s, ast.Assign) and len(s.targets) == 1 and isinstance(s.targets[0], ast.Name) and isinstance(s.value, ast.Call) \
                and dotted(s.value.func) == source_call:
            var = s.targets[0].id
    if var is None:
        raise AnalysisError("%s.%s: the Deferred of %s() is not held in a local" % (cls, fname, source_call))
    ms = _methods(tree, rel, cls)
    local = {f.name: f for f in ast.walk(fn) if isinstance(f, (ast.FunctionDef, ast.AsyncFunctionDef)) and f is not fn}

    def resolve(e):
        if isinstance(e, ast.Lambda):
            return e
        if isinstance(e, ast.Name):
            return local.get(e.id)
        if isinstance(e, ast.Attribute) and isinstance(e.value, ast.Name) and e.value.id == "self":
            return ms.get(e.attr)
        return None
    st = deferredchain.stages(fn, var)
    bad = deferredchain.failure_to_success_stages(fn, var, resolve)
    rep.check(rule, "%s.%s: none of the %d stages attached to %s()'s Deferred turns a failure into a success" % (cls, fname, len(st), source_call),
              bool(st) and not bad, site(bad[0] if bad else fn, rel), key="%s:%s.%s:failure-stays-failure" % (rule, cls, fname),
              what="%s.%s attaches an errback to the transfer's Deferred that can end without re-raising (%s): a cut or corrupted stream is reported "
                   "to the CLI as success" % (cls, fname, ast.unparse(bad[0].args[0])[:60] if bad and bad[0].args else "?"))


def every_member_extracted(tree, rep, rule, rel="src/wormhole/cli/cmd_receive.py", cls="Receiver", fname="_write_directory", extract="_extract_file"):
    """every member of the received archive is handed to the extractor: the byte count, the hash and the ack are computed over the zip stream,
    so a member that is skipped while unpacking (a `continue`, a filter) is missing on disk although both sides report success - the empty
    directories the sender deliberately preserves are exactly such members."""
    fn = tree.func(rel, cls, fname)
    loops = [l for l in ast.walk(fn) if isinstance(l, ast.For) and any(isinstance(c, ast.Call) and isinstance(c.func, ast.Attribute) and c.func.attr == "infolist"
                                                                     for c in ast.walk(l.iter))]
    if len(loops) != 1:
        raise AnalysisError("%s.%s: expected one loop over zf.infolist(), found %d" % (cls, fname, len(loops)))
    loop = loops[0]
    direct_iter = isinstance(loop.iter, ast.Call) and isinstance(loop.iter.func, ast.Attribute) and loop.iter.func.attr == "infolist"
    g = build(fn)
    ex = g.call_nodes(lambda c: dotted(c.func) == "self.%s" % extract)
    ln = g.node_of(loop)
    body_first = [g.node_of(loop.body[0])] if loop.body else []
    ok = bool(ex) and direct_iter and bool(body_first)
    if ok:
        # from the first statement of the body, the loop head (next member) and the function exit are reachable only through the extractor
        r = g.reach(body_first, avoid_nodes=set(ex), explicit_only=True)
        ok = ln not in r and g.exit not in r
    rep.check(rule, "%s.%s hands every member of zf.infolist() to %s (no filter on the iteration, no path round the call)" % (cls, fname, extract), ok,
              site(loop, rel), key="%s:%s:every-member" % (rule, fname),
              what="%s.%s skips some archive members: what is on disk is not the tree the sender hashed and both sides still report success "
                   "(the sender's zip has directory entries exactly for empty directories)" % (cls, fname))


# ---------------------------------------------------------------------------------------------------------------------------------
# C06.R10 / R11

def parser_only_in_records_state(tree, rep, rule, rel="src/wormhole/transit.py", cls="Connection", parser="dataReceivedRECORDS", state="records"):
    """the record parser runs only from the state dispatcher and only in state "records": `hung up` (set by the handler of a bad record) is
    what keeps everything behind the manipulation point from being parsed, so a second way into the parser (a cached bound method, a
    records-only fast path) surfaces records from behind a forged or corrupted one."""
    ms = _methods(tree, rel, cls)
    if parser not in ms:
        raise AnalysisError("%s.%s not found" % (cls, parser))
    sites_ = []
    for name, fn in ms.items():
        for n in ast.walk(fn):
            if isinstance(n, ast.Attribute) and n.attr == parser and isinstance(n.value, ast.Name) and n.value.id == "self":
                sites_.append((name, fn, n))
    callers = sorted({n for (n, f, a) in sites_})
    ok = len(callers) == 1
    bad = None
    if ok:
        name, fn, _ = sites_[0]
        g = build(fn, split=True)
        atom = cmp_atom(lambda e: is_self_attr(e, "state"), lambda e: isinstance(e, ast.Constant) and e.value == state)
        calls = g.call_nodes(lambda c: dotted(c.func) == "self.%s" % parser)
        refs = [a for (n, f, a) in sites_]
        # every mention is the callee of a call (never stored, never passed on)
        called = {id(c.func) for c in _calls(fn)}
        ok = bool(calls) and all(id(a) in called for a in refs) and not g.only_when(calls, atom, True)
        bad = fn
    else:
        bad = sites_[1][1] if len(sites_) > 1 else ms[parser]
    rep.check(rule, "%s.%s is reached from one place only, as a call under `self.state == %r` (mentioned in: %s)" % (cls, parser, state, callers), ok,
              site(bad, rel), key="%s:%s:only-in-state-%s" % (rule, parser, state),
              what="%s.%s can run without the state test (mentioned in %s): after a record that failed its nonce or MAC check set 'hung up', bytes "
                   "that are still arriving are parsed and delivered" % (cls, parser, callers))
    # no method of the class is re-bound on the instance
    rebound = []
    for name, fn in ms.items():
        for s in ast.walk(fn):
            if isinstance(s, (ast.Assign, ast.AnnAssign, ast.AugAssign)):
                tg = s.targets if isinstance(s, ast.Assign) else [s.target]
                for t in tg:
                    for e in (t.elts if isinstance(t, (ast.Tuple, ast.List)) else [t]):
                        if isinstance(e, ast.Attribute) and isinstance(e.value, ast.Name) and e.value.id == "self" and e.attr in ms:
                            rebound.append((name, e))
    rep.check(rule, "no method of %s is re-bound on the instance (%d methods)" % (cls, len(ms)), not rebound, site(rebound[0][1] if rebound else tree.cls(rel, cls), rel),
              key="%s:%s:no-method-rebinding" % (rule, cls),
              what="%s.%s assigns self.%s: the handler that is installed bypasses whatever the class's own method checks on every call"
                   % (cls, rebound[0][0] if rebound else "?", rebound[0][1].attr if rebound else "?"))


def queued_waiters_not_cancellable(tree, rep, rule, rel="src/wormhole/transit.py", cls="Connection", queue="_waiting_reads"):
    """a Deferred parked in the queue of waiting reads is fired by position: one that was cancelled or timed out but is still in the queue
    receives - and silently drops - the next record.  So the library never arms a timeout on (or cancels) a Deferred it appends to that
    queue unless it was created with a canceller (which is what removes it)."""
    ms = _methods(tree, rel, cls)
    n = 0
    bad = None
    for name, fn in ms.items():
        for c in _calls(fn):
            if isinstance(c.func, ast.Attribute) and c.func.attr in ("append", "appendleft") and is_self_attr(c.func.value, queue) and len(c.args) == 1:
                n += 1
                a = c.args[0]
                if not isinstance(a, ast.Name):
                    continue
                created = [s for s in ast.walk(fn) if isinstance(s, ast.Assign) and any(isinstance(t, ast.Name) and t.id == a.id for t in s.targets)]
                has_canceller = bool(created) and all(isinstance(s.value, ast.Call) and (s.value.args or s.value.keywords) for s in created)
                for k in _calls(fn):
                    if isinstance(k.func, ast.Attribute) and k.func.attr in ("addTimeout", "cancel") and isinstance(k.func.value, ast.Name) and k.func.value.id == a.id \
                            and not has_canceller:
                        bad = bad or k
    if n == 0:
        raise AnalysisError("%s: no append to %s found" % (cls, queue))
    rep.check(rule, "%s: a Deferred appended to %s (%d sites) gets no timeout / cancel unless it was created with a canceller" % (cls, queue, n), bad is None,
              site(bad or tree.cls(rel, cls), rel), key="%s:%s:no-timeout-on-queued-waiter" % (rule, queue),
              what="%s arms a timeout on a Deferred that stays in %s: after it fired, the next inbound record is handed to the dead Deferred and "
                   "vanishes while the connection stays up" % (cls, queue))


# ---------------------------------------------------------------------------------------------------------------------------------
# C09.R9 bookkeeping in server-message handlers tolerates replays

def handlers_tolerate_replay(tree, rep, rule, rel="src/wormhole/_rendezvous.py", cls="RendezvousConnector", prefix="_response_handle_"):
    """after every re-open the server replays the whole mailbox, so the handler of a server message sees the same (side, phase) again.  A
    handler (or a same-class helper it calls) that removes a key from a dict of its own without allowing for its absence - `d.pop(k)`,
    `del d[k]` - raises on the replay; the exception goes to Boss.error and the session that was supposed to survive the reconnect is
    closed with an internal error."""
    ms = _methods(tree, rel, cls)
    roots = [n for n in ms if n.startswith(prefix)]
    if not roots:
        raise AnalysisError("%s: no %s* handlers" % (cls, prefix))
    seen = set()
    work = list(roots)
    while work:
        n = work.pop()
        if n in seen or n not in ms:
            continue
        seen.add(n)
        for c in _calls(ms[n]):
            d = dotted(c.func)
            if d and d.startswith("self.") and d.count(".") == 1:
                work.append(d[5:])
    bad = None
    checked = 0
    for n in sorted(seen):
        fn = ms[n]
        g = None
        for x in ast.walk(fn):
            tgt = None
            if isinstance(x, ast.Call) and isinstance(x.func, ast.Attribute) and x.func.attr in ("pop", "remove") and isinstance(x.func.value, ast.Attribute) \
                    and isinstance(x.func.value.value, ast.Name) and x.func.value.value.id == "self" and len(x.args) == 1 and not x.keywords:
                tgt = (x.func.value.attr, x.args[0])
            elif isinstance(x, ast.Delete):
                for t in x.targets:
                    if isinstance(t, ast.Subscript) and isinstance(t.value, ast.Attribute) and isinstance(t.value.value, ast.Name) and t.value.value.id == "self":
                        tgt = (t.value.attr, t.slice)
            if tgt is None:
                continue
            checked += 1
            attr, keyexpr = tgt
            g = g or build(fn, split=True)
            kd = ast.dump(keyexpr)
            atom = in_atom(lambda e: ast.dump(e) == kd, lambda e: is_self_attr(e, attr))
            stmt = x
            from .astutil import enclosing_stmt
            st = enclosing_stmt(x) if not isinstance(x, ast.stmt) else x
            node = g.node_of(st)
            if node is None or g.only_when([node], atom, True):
                # not guarded by a membership test; a try/except KeyError|ValueError around it is the other accepted idiom
                from .astutil import ancestors
                handled = any(isinstance(a, ast.Try) and any(h.type is None or any(isinstance(t, ast.Name) and t.id in ("KeyError", "ValueError", "LookupError", "Exception")
                                                                                     for t in ast.walk(h.type)) for h in a.handlers)
                              and any(x in list(ast.walk(b)) for b in a.body) for a in ancestors(x))
                if not handled:
                    bad = bad or (n, x, attr)
    rep.check(rule, "%s: the %d server-message handlers and the %d same-class helpers they reach remove keys from their own containers only with a default "
              "or under a membership test (%d removals)" % (cls, len(roots), len(seen) - len(roots), checked), bad is None,
              site(bad[1] if bad else tree.cls(rel, cls), rel), key="%s:%s:replay-tolerant-bookkeeping" % (rule, cls),
              what="%s.%s removes a key from self.%s without allowing for its absence: the replay of the mailbox after a reconnect delivers the same "
                   "message again - KeyError inside the handler, the session ends with an internal error instead of resuming"
                   % (cls, bad[0] if bad else "?", bad[2] if bad else "?"))


# ---------------------------------------------------------------------------------------------------------------------------------
# C11.R11 / C20.R9: hints go to the Connector from use_hints only, and statelessly

def hints_forwarded_statelessly(tree, rep, rule, rel="src/wormhole/_dilation/manager.py", cls="Manager", fname="use_hints", allowed=("_connector",)):
    """every connection-hints message is parsed and handed to the CURRENT Connector in full: the Connector is per generation, the Manager
    is not - a Manager-level memory of hints 'already seen' withholds the (byte-identical) relay hint from every later generation, and
    two sides that can only meet at the relay never re-converge."""
    fn = tree.func(rel, cls, fname)
    reads = []
    for n in ast.walk(fn):
        if isinstance(n, ast.Attribute) and isinstance(n.value, ast.Name) and n.value.id == "self" and n.attr not in allowed:
            # a pure statistics update `self._x[..] += 1` / `self._x += 1` is not a read that can influence what is forwarded
            from .astutil import ancestors
            aug = any(isinstance(a, ast.AugAssign) and any(n is y for y in ast.walk(a.target)) for a in ancestors(n))
            if not aug:
                reads.append(n)
    rep.check(rule, "%s.%s depends on no state of the %s besides %s" % (cls, fname, cls, list(allowed)), not reads, site(reads[0] if reads else fn, rel),
              key="%s:%s:stateless" % (rule, fname),
              what="%s.%s consults self.%s: which hints reach the Connector depends on what earlier generations saw - a hint that is repeated verbatim "
                   "(the relay) is withheld from the new Connector" % (cls, fname, reads[0].attr if reads else "?"))


def only_caller(tree, rep, rule, rel, cls, callee, allowed, why):
    """who-may-call: `callee` (dotted, e.g. self._connector.got_hints) is called only from the listed methods of the class"""
    ms = _methods(tree, rel, cls)
    found = {}
    for name, fn in ms.items():
        for c in _calls(fn):
            if dotted(c.func) == callee:
                found.setdefault(name, c)
    if not found:
        raise AnalysisError("%s: no call of %s" % (cls, callee))
    extra = sorted(set(found) - set(allowed))
    rep.check(rule, "%s: %s is called only from %s (callers: %s)" % (cls, callee, sorted(allowed), sorted(found)), not extra,
              site(found[extra[0]] if extra else tree.cls(rel, cls), rel), key="%s:%s:only-from:%s" % (rule, callee, "+".join(sorted(allowed))),
              what="%s.%s calls %s: %s" % (cls, extra[0] if extra else "?", callee, why))


# ---------------------------------------------------------------------------------------------------------------------------------
# C12.R9 the encoder is not memoised

def not_memoised(tree, rep, rule, rel, fname, why):
    fn = tree.func(rel, None, fname)
    decs = [dotted(d.func) if isinstance(d, ast.Call) else dotted(d) for d in fn.decorator_list]
    bad = [d for d in decs if d and ("cache" in d.lower() or "memo" in d.lower())]
    rep.check(rule, "%s is not memoised (decorators: %s)" % (fname, decs), not bad, site(fn, rel), key="%s:%s:not-memoised" % (rule, fname),
              what="%s is wrapped in %s: %s" % (fname, bad[0] if bad else "?", why))


# ---------------------------------------------------------------------------------------------------------------------------------
# C14.R9 the application is not called while connection flag and machines disagree

def app_not_called_mid_transition(tree, rep, rule, rel="src/wormhole/_rendezvous.py", cls="RendezvousConnector", app="_evolve_status",
                                  flag="_ws", funcs=(("ws_open", "connected"), ("ws_close", "lost"))):
    """_evolve_status runs the application's status callback synchronously, and the application may call close() (or anything else) from it.
    Between the write of self._ws and the last connected()/lost() notification the connector's own idea of 'connected' and the machines'
    disagree: a close() in that window makes Nameplate / Mailbox transmit on a websocket that is gone (assert self._ws) or skip the
    `lost` inputs, and close() reports an internal error."""
    for fname, note in funcs:
        fn = tree.func(rel, cls, fname)
        g = build(fn)
        w = g.nodes(lambda s: isinstance(s, ast.Assign) and any(is_self_attr(t, flag) for t in s.targets))
        ns = g.call_nodes(lambda c: isinstance(c.func, ast.Attribute) and c.func.attr == note and isinstance(c.func.value, ast.Attribute)
                          and isinstance(c.func.value.value, ast.Name) and c.func.value.value.id == "self")
        es = g.call_nodes(lambda c: dotted(c.func) == "self.%s" % app)
        if not w or not ns:
            raise AnalysisError("%s.%s: write of self.%s or %s() notifications not found" % (cls, fname, flag, note))
        after_w = g.reach(w, include_start=False, explicit_only=True)
        bad = [e for e in es if e in after_w and (set(ns) & g.reach([e], include_start=False, explicit_only=True))]
        rep.check(rule, "%s.%s: no application call-out (%s) between the write of self.%s and the %d %s() notifications" % (cls, fname, app, flag, len(ns), note),
                  not bad, site(g.stmt[bad[0]] if bad else fn, rel), key="%s:%s:no-callout-mid-transition" % (rule, fname),
                  what="%s.%s runs the application's status callback after self.%s changed and before the machines heard %s(): a close() from that "
                       "callback finds Nameplate/Mailbox in the wrong half of their state space (transmit without a websocket, or a skipped `lost`)"
                       % (cls, fname, flag, note))


# ---------------------------------------------------------------------------------------------------------------------------------
# C16.R7 / C17.R14 delayed calls and delayed attempts are owned

def delayed_calls_owned(tree, rep, rule, rel="src/wormhole/_dilation/manager.py", cls="Manager"):
    """every delayed call the Manager arms is held in an attribute (so that losing or stopping the connection can cancel it): a timer that
    nobody holds outlives the connection it was armed for and acts on whatever connection is current when it fires - a responsive
    connection is dropped by the watchdog of its predecessor."""
    ms = _methods(tree, rel, cls)
    n = 0
    bad = None
    for name, fn in ms.items():
        for c in _calls(fn):
            if isinstance(c.func, ast.Attribute) and c.func.attr == "callLater":
                n += 1
                from .astutil import enclosing_stmt
                st = enclosing_stmt(c)
                held = isinstance(st, ast.Assign) and st.value is c and any(isinstance(t, ast.Attribute) and isinstance(t.value, ast.Name) and t.value.id == "self"
                                                                              for t in st.targets)
                if not held:
                    bad = bad or (name, c)
    if n == 0:
        raise AnalysisError("%s: no callLater found" % cls)
    rep.check(rule, "%s: each of the %d callLater() handles is stored in an attribute of the %s" % (cls, n, cls), bad is None, site(bad[1] if bad else tree.cls(rel, cls), rel),
              key="%s:%s:delayed-calls-owned" % (rule, cls),
              what="%s.%s arms a delayed call and drops the handle: nothing cancels it when the connection it was meant for goes away, and it fires "
                   "against the next one" % (cls, bad[0] if bad else "?"))


def disconnect_sites(tree, rep, rule, allowed, rel="src/wormhole/_dilation/manager.py", cls="Manager"):
    only_caller(tree, rep, rule, rel, cls, "self._connection.disconnect", allowed,
                "a further place drops the current connection - the Leader keeps a responsive connection only if nothing but the traffic monitor's "
                "verdict (and shutdown) can drop it")


def delayed_attempts_tracked(tree, rep, rule, rel="src/wormhole/_dilation/connector.py", cls="Connector", pending="_pending_connectors"):
    """every delayed connection attempt (deferLater(.., self._connect, ..)) is entered into the set stop() cancels, on every path from its
    creation to the end of the function: an attempt that is not tracked survives stop_everything() - it dials after the wormhole closed,
    and a connection it produces belongs to a stopped Connector that nobody closes."""
    ms = _methods(tree, rel, cls)
    n = 0
    bad = None
    for name, fn in ms.items():
        cs = [c for c in _calls(fn) if dotted(c.func) in ("deferLater", "task.deferLater")]
        if not cs:
            continue
        g = build(fn)
        for c in cs:
            n += 1
            from .astutil import enclosing_stmt
            st = enclosing_stmt(c)
            if not (isinstance(st, ast.Assign) and st.value is c and len(st.targets) == 1 and isinstance(st.targets[0], ast.Name)):
                bad = bad or (name, c)
                continue
            v = st.targets[0].id
            adds = g.call_nodes(lambda k, v=v: (isinstance(k.func, ast.Attribute) and k.func.attr == "add" and is_self_attr(k.func.value, pending)
                                                and len(k.args) == 1 and isinstance(k.args[0], ast.Name) and k.args[0].id == v))
            adds += g.nodes(lambda s, v=v: isinstance(s, ast.Assign) and any(isinstance(t, ast.Subscript) and is_self_attr(t.value, pending)
                                                                           and isinstance(t.slice, ast.Name) and t.slice.id == v for t in s.targets))
            start = g.node_of(st)
            nxt = [y for (y, lab) in g.succ[start] if lab != 'exc']
            if not adds or g.exit in g.reach(nxt, avoid_nodes=set(adds), explicit_only=True):
                bad = bad or (name, c)
    if n == 0:
        raise AnalysisError("%s: no deferLater found" % cls)
    rep.check(rule, "%s: each of the %d deferLater() attempts is added to %s before the function ends" % (cls, n, pending), bad is None,
              site(bad[1] if bad else tree.cls(rel, cls), rel), key="%s:%s:delayed-attempts-tracked" % (rule, cls),
              what="%s.%s schedules a connection attempt that is not entered into %s: stop() cannot cancel it - it dials after close(), and what it "
                   "connects is never shut down" % (cls, bad[0] if bad else "?", pending))


# ---------------------------------------------------------------------------------------------------------------------------------
# C19.R8 word completions are the wordlist's, for the prefix as typed

def completions_from_wordlist(tree, rep, rule, rel="src/wormhole/_input.py", cls="Input", fname="_get_word_completions"):
    """what the helper offers for the words is exactly what the wordlist derives from the text typed so far: the wordlist's completions are
    (by C19's other rules) extensions of the prefix made of allocatable words.  A completion the Input machine edits (re-based on the typed
    capitals) is a code no allocate_code() produces; one it remembers from an earlier call extends a different line."""
    from .dataflow import expand
    fn = tree.func(rel, cls, fname)
    p = params(fn)
    rets = [r for r in ast.walk(fn) if isinstance(r, ast.Return) and enclosing_function(r) is fn]
    ok = bool(rets) and len(p) == 1
    badr = None
    for r in rets:
        v = expand(fn, r.value) if r.value is not None else None
        good = isinstance(v, ast.Call) and dotted(v.func) == "self._wordlist.get_completions" and len(v.args) == 1 and not v.keywords \
            and isinstance(v.args[0], ast.Name) and v.args[0].id == p[0]
        if not good:
            ok = False
            badr = badr or r
    stores = [n for n in ast.walk(fn) if isinstance(n, ast.Name) and p and n.id == p[0] and isinstance(n.ctx, ast.Store)]
    ok = ok and not stores
    rep.check(rule, "%s.%s returns self._wordlist.get_completions(<the prefix as typed>) and nothing else (%d returns)" % (cls, fname, len(rets)), ok,
              site(badr or fn, rel), key="%s:%s:wordlist-verbatim" % (rule, fname),
              what="%s.%s offers something other than the wordlist's completions of the typed prefix (edited, filtered or remembered): a completion "
                   "that does not extend the line, or a code no allocate_code() can produce, is submitted" % (cls, fname))


# ---------------------------------------------------------------------------------------------------------------------------------
# round 10 ("equivalent" API substitutions)

def be4_codec_unsigned(tree, rep, rule, rel="src/wormhole/_dilation/encode.py"):
    """sequence numbers and acks travel as 4-byte big-endian UNSIGNED integers in both directions: a signed decoder turns every seqnum
    >= 2**31 into a negative number, which the watermark test drops as 'old' and the ack encoder refuses - nothing is delivered or retired
    from then on (the instance of C12.R1 for the in-order / exactly-once argument)."""
    from .astutil import const
    tb, fb = tree.func(rel, None, "to_be4"), tree.func(rel, None, "from_be4")
    structs = {k: const(v.args[0]) for k, v in tree.module_constants(rel).items()
               if isinstance(v, ast.Call) and dotted(v.func) == "struct.Struct" and v.args}

    def fmts(fn, meth):
        out = [const(c.args[0]) for c in ast.walk(fn) if isinstance(c, ast.Call) and dotted(c.func) == "struct." + meth and c.args]
        out += [structs[c.func.value.id] for c in ast.walk(fn) if isinstance(c, ast.Call) and isinstance(c.func, ast.Attribute)
                and c.func.attr == meth and isinstance(c.func.value, ast.Name) and c.func.value.id in structs]
        return out
    fm1, fm2 = fmts(tb, "pack"), fmts(fb, "unpack")
    if not fm1 or not fm2:
        raise AnalysisError("to_be4 / from_be4: struct format not found")
    ok = fm1 == fm2 and len(fm1) == 1 and fm1[0] in (">L", ">I", "!L", "!I")
    rep.check(rule, "to_be4 / from_be4 use one unsigned 4-byte big-endian format (%s / %s)" % (fm1, fm2), ok, site(fb, rel), key="%s:be4-unsigned" % rule,
              what="to_be4 packs %s, from_be4 unpacks %s: a sequence number with the top bit set comes back negative, is dropped as already seen and "
                   "cannot be acknowledged" % (fm1, fm2))


def no_hashing_of_peer_values(tree, rep, rule, sites_):
    """a membership test of a peer-supplied value against a SET (literal, set()/frozenset() call, or a module constant bound to one) hashes
    the value: a JSON list or object in that position raises TypeError where the list-membership test answered False.  `sites_` lists
    (file, class or None, function) of the functions that handle peer hints; a test is accepted when the same function first checks
    isinstance(<value>, str)."""
    n = 0
    bad = None
    for rel, cls, fname in sites_:
        fn = tree.func(rel, cls, fname)
        consts = tree.module_constants(rel)

        def is_set(e):
            if isinstance(e, (ast.Set, ast.SetComp)):
                return True
            if isinstance(e, ast.Call) and dotted(e.func) in ("set", "frozenset"):
                return True
            if isinstance(e, ast.Name) and e.id in consts:
                return is_set(consts[e.id])
            return False
        for c in ast.walk(fn):
            if isinstance(c, ast.Compare) and len(c.ops) == 1 and isinstance(c.ops[0], (ast.In, ast.NotIn)):
                n += 1
                if is_set(c.comparators[0]) and not isinstance(c.left, ast.Constant):
                    lname = c.left.id if isinstance(c.left, ast.Name) else None
                    checked = lname is not None and any(
                        isinstance(k, ast.Call) and dotted(k.func) == "isinstance" and len(k.args) == 2 and isinstance(k.args[0], ast.Name)
                        and k.args[0].id == lname and dotted(k.args[1]) == "str" and k.lineno < c.lineno for k in ast.walk(fn))
                    if not checked:
                        bad = bad or (rel, fname, c)
    rep.check(rule, "peer-hint handlers test membership of peer values against lists / tuples / dicts keyed by str only, never by hashing an unchecked "
              "value into a set (%d membership tests in %d functions)" % (n, len(sites_)), bad is None, site(bad[2], bad[0]) if bad else sites_[0][0],
              key="%s:no-hash-of-peer-value" % rule,
              what="%s hashes a peer-supplied value (`%s`): a hint whose field is a JSON list or object raises TypeError inside the handler and the "
                   "whole hints message - valid hints included - is lost" % (bad[1] if bad else "?", ast.unparse(bad[2])[:80] if bad else "?"))


def forwarded_in_same_turn(tree, rep, rule, rel, sites_, why):
    """each listed method calls its callee directly - a Call statement of the method's own body, not inside a lambda / nested function
    and never handed to callLater / eventually / deferLater as an argument: the mechanism rests on the call happening in the same reactor
    turn (the exception must travel back into the caller's try/except; open and close must not be re-ordered)."""
    for cls, fname, callee in sites_:
        fn = tree.func(rel, cls, fname)
        direct, indirect = [], []
        nested = {id(x) for f in ast.walk(fn) if isinstance(f, (ast.Lambda, ast.FunctionDef, ast.AsyncFunctionDef)) and f is not fn for x in ast.walk(f)}
        called = {id(c.func): c for c in ast.walk(fn) if isinstance(c, ast.Call)}
        for n in ast.walk(fn):
            if isinstance(n, ast.Attribute) and dotted(n) == callee:
                if id(n) in called and id(n) not in nested:
                    direct.append(called[id(n)])
                else:
                    indirect.append(n)
        rep.check(rule, "%s.%s calls %s directly, in the same turn (%d direct call(s), %d other mention(s))" % (cls, fname, callee, len(direct), len(indirect)),
                  bool(direct) and not indirect, site(indirect[0] if indirect else fn, rel), key="%s:%s.%s:same-turn" % (rule, cls, fname),
                  what="%s.%s no longer calls %s itself in the turn the event arrives (it is handed to a scheduler or wrapped in a closure): %s"
                       % (cls, fname, callee, why))


def no_yield_between(tree, rep, rule, rel, cls, fname, first_call, then_calls, why):
    """in an inlineCallbacks body, no yield point lies on a path from the call that makes the object visible to the rest of the system
    (`first_call`) to the calls that complete it (`then_calls`): whatever arrives for it in a turn in between finds it half-built."""
    fn = tree.func(rel, cls, fname)
    g = build(fn)
    a = g.call_nodes(lambda c: isinstance(c.func, ast.Attribute) and c.func.attr == first_call)
    b = g.call_nodes(lambda c: isinstance(c.func, ast.Attribute) and c.func.attr in then_calls)
    if not a or not b:
        raise AnalysisError("%s.%s: %s / %s not found" % (cls, fname, first_call, then_calls))
    ys = [n for n in g.stmt if any(isinstance(x, (ast.Yield, ast.YieldFrom, ast.Await)) for e in g.head_expr(n) for x in ast.walk(e))]
    after_a = g.reach(a, include_start=False, explicit_only=True)
    bad = [y for y in ys if y in after_a and y not in a and (set(b) & g.reach([y], explicit_only=True))]
    rep.check(rule, "%s.%s: no yield point between %s() and %s (%d yield points in the function)" % (cls, fname, first_call, "/".join(then_calls), len(ys)),
              not bad, site(g.stmt[bad[0]] if bad and isinstance(g.stmt[bad[0]], ast.AST) else fn, rel), key="%s:%s.%s:no-yield-in-window" % (rule, cls, fname),
              what="%s.%s gives up the reactor between %s() and %s: %s" % (cls, fname, first_call, "/".join(then_calls), why))


def numeric_phase_pattern_anchored(tree, rep, rule, rel="src/wormhole/_boss.py", cls="Boss", fname="got_message"):
    """the test that sends a phase to int(phase) admits only strings int() accepts: one or more digits, anchored at both ends (`$` is
    enough here - int() tolerates the trailing newline `$` lets through).  A pattern that is open at one end sends a correctly encrypted
    peer message with a phase like `1x` into int(): ValueError inside ws_message, reported by close() as an internal error - unknown phases
    are to be ignored."""
    import re._parser as sre
    from .astutil import const
    fn = tree.func(rel, cls, fname)
    consts = tree.module_constants(rel)
    cands = []
    for c in ast.walk(fn):
        if not isinstance(c, ast.Call):
            continue
        d = dotted(c.func) or ""
        pat = how = None
        if d in ("re.search", "re.match", "re.fullmatch") and c.args and isinstance(const(c.args[0]), str):
            pat, how = const(c.args[0]), d.split(".")[1]
        elif isinstance(c.func, ast.Attribute) and c.func.attr in ("search", "match", "fullmatch") and isinstance(c.func.value, ast.Name):
            comp = consts.get(c.func.value.id)
            if isinstance(comp, ast.Call) and dotted(comp.func) == "re.compile" and comp.args and isinstance(const(comp.args[0]), str):
                pat, how = const(comp.args[0]), c.func.attr
        if pat is not None:
            cands.append((pat, how, c))
    # the numeric-phase pattern: the one without a literal prefix
    num = [(p, h, c) for (p, h, c) in cands if "dilate" not in p]
    if len(num) != 1:
        raise AnalysisError("%s.%s: expected one numeric phase pattern, found %d" % (cls, fname, len(num)))
    pat, how, call = num[0]
    try:
        items = list(sre.parse(pat))
    except Exception as e:
        raise AnalysisError("cannot parse pattern %r: %s" % (pat, e))
    names = [str(op) for (op, av) in items]
    start_ok = how in ("match", "fullmatch") or (names and names[0] == "AT" and str(items[0][1]) in ("AT_BEGINNING", "AT_BEGINNING_STRING"))
    end_ok = how == "fullmatch" or (names and names[-1] == "AT" and str(items[-1][1]) in ("AT_END", "AT_END_STRING"))
    core = [it for it in items if str(it[0]) != "AT"]
    digits_ok = False
    if len(core) == 1 and str(core[0][0]) == "MAX_REPEAT":
        lo, hi, sub = core[0][1]
        sub = list(sub)
        if lo >= 1 and len(sub) == 1 and str(sub[0][0]) == "IN":
            members = list(sub[0][1])
            digits_ok = all((str(k) == "CATEGORY" and str(v) == "CATEGORY_DIGIT") or (str(k) == "RANGE" and v == (48, 57)) for (k, v) in members)
    ok = bool(start_ok and end_ok and digits_ok)
    rep.check(rule, "%s.%s: the numeric-phase pattern %r (%s) is one or more digits anchored at both ends" % (cls, fname, pat, how), ok, site(call, rel),
              key="%s:%s:numeric-phase-anchored" % (rule, fname),
              what="%s.%s sends phases matching %r (re.%s) to int(): a peer phase such as '1x' raises ValueError in the handler of a peer message and "
                   "close() reports an internal error instead of ignoring the unknown phase" % (cls, fname, pat, how))
