"""Engine A1/A2: Automat MethodicalMachine table extraction and wiring resolution.

Reads the class bodies of the package: `m = MethodicalMachine()`, `@m.state`,
`@m.input`, `@m.output`, `X.upon(input, enter=Y, outputs=[...])`, aliases
`S4A = S4`.  Fails closed (AnalysisError) on shapes it does not know.
"""
import ast
from collections import OrderedDict

from .srcmodel import AnalysisError, AnchorMissing
from .astutil import dotted


class Row:
    __slots__ = ("src", "inp", "enter", "outputs", "collector", "node", "file")

    def __init__(self, src, inp, enter, outputs, collector, node, file):
        self.src, self.inp, self.enter, self.outputs = src, inp, enter, outputs
        self.collector, self.node, self.file = collector, node, file

    @property
    def site(self):
        return "%s:%d" % (self.file, self.node.lineno)

    def __repr__(self):
        return "%s.%s->%s%s" % (self.src, self.inp, self.enter, self.outputs)


class ClassInfo:
    """A class of the package; a machine iff .is_machine."""

    def __init__(self, node, file):
        self.name = node.name
        self.node = node
        self.file = file
        self.mvars = set()
        self.states = OrderedDict()   # name -> dict(initial, terminal, node)
        self.alias = {}
        self.inputs = OrderedDict()   # name -> FunctionDef
        self.outputs = OrderedDict()
        self.methods = OrderedDict()  # plain methods
        self.rows = OrderedDict()     # (state, input) -> Row
        self.initial = None
        self.implements = []
        self.wiring = {}              # attr -> class name
        self.attr_fields = []         # attrs fields (class-level `x = attrib(...)`)
        self.field_ifaces = {}        # attrs field -> interface name it must provide

    @property
    def is_machine(self):
        return bool(self.mvars)

    def canon(self, s):
        return self.alias.get(s, s)

    def row(self, state, inp):
        return self.rows.get((self.canon(state), inp))

    def rows_from(self, state):
        state = self.canon(state)
        return [r for r in self.rows.values() if r.src == state]

    def rows_into(self, state):
        state = self.canon(state)
        return [r for r in self.rows.values() if r.enter == state]

    def rows_on(self, inp):
        return [r for r in self.rows.values() if r.inp == inp]

    def func(self, name):
        return self.outputs.get(name) or self.methods.get(name) or self.inputs.get(name)

    def terminal_states(self):
        return [s for s, d in self.states.items() if d["terminal"]]


def _deco(d, mvars):
    if isinstance(d, ast.Call) and isinstance(d.func, ast.Attribute) and isinstance(d.func.value, ast.Name) \
            and d.func.value.id in mvars and d.func.attr in ("state", "input", "output"):
        kw = {}
        for k in d.keywords:
            try:
                kw[k.arg] = ast.literal_eval(k.value)
            except Exception:
                kw[k.arg] = None
        return d.func.attr, kw
    return None, None


def _name(node, what, ci):
    if not isinstance(node, ast.Name):
        raise AnalysisError("%s:%d: %s of an upon() in %s is not a plain name" % (
            ci.file, getattr(node, "lineno", 0), what, ci.name))
    return node.id


def extract_class(node, file):
    ci = ClassInfo(node, file)
    for st in node.body:
        if isinstance(st, ast.AnnAssign) and isinstance(st.target, ast.Name) and isinstance(st.value, ast.Call):
            # x: T = attrib(...)  reads like  x = attrib(...)
            st = ast.copy_location(ast.Assign(targets=[st.target], value=st.value), st)
        if isinstance(st, ast.Assign) and isinstance(st.value, ast.Call):
            f = st.value.func
            fname = f.id if isinstance(f, ast.Name) else (f.attr if isinstance(f, ast.Attribute) else None)
            if fname == "MethodicalMachine" and len(st.targets) == 1 and isinstance(st.targets[0], ast.Name):
                ci.mvars.add(st.targets[0].id)
            elif fname in ("attrib", "ib", "field") and len(st.targets) == 1 and isinstance(st.targets[0], ast.Name):
                ci.attr_fields.append(st.targets[0].id)
                # x = attrib(validator=provides(IFoo)): the field holds an implementer of IFoo
                for k in st.value.keywords:
                    if k.arg == "validator" and isinstance(k.value, ast.Call) and dotted(k.value.func) in ("provides", "optional"):
                        inner = k.value
                        if dotted(inner.func) == "optional" and inner.args and isinstance(inner.args[0], ast.Call):
                            inner = inner.args[0]
                        if dotted(inner.func) == "provides" and inner.args:
                            iname = dotted(inner.args[0])
                            if iname:
                                ci.field_ifaces[st.targets[0].id] = iname.split(".")[-1]
    for d in node.decorator_list:
        if isinstance(d, ast.Call) and isinstance(d.func, ast.Name) and d.func.id == "implementer":
            for a in d.args:
                iname = a.attr if isinstance(a, ast.Attribute) else getattr(a, "id", None)
                if iname:
                    ci.implements.append(iname)
    for st in node.body:
        if isinstance(st, (ast.FunctionDef, ast.AsyncFunctionDef)):
            kind = kw = None
            for d in st.decorator_list:
                k, w = _deco(d, ci.mvars)
                if k:
                    kind, kw = k, w
                    break
            if kind == "state":
                ci.states[st.name] = dict(initial=bool(kw.get("initial")), terminal=bool(kw.get("terminal")), node=st)
                if kw.get("initial"):
                    if ci.initial is not None:
                        raise AnalysisError("%s: two initial states in %s" % (file, ci.name))
                    ci.initial = st.name
            elif kind == "input":
                ci.inputs[st.name] = st
            elif kind == "output":
                ci.outputs[st.name] = st
            else:
                ci.methods[st.name] = st
    if not ci.mvars:
        return ci
    for st in node.body:
        if isinstance(st, ast.Assign) and len(st.targets) == 1 and isinstance(st.targets[0], ast.Name) \
                and isinstance(st.value, ast.Name) and st.value.id in ci.states:
            ci.alias[st.targets[0].id] = st.value.id
    # class-level constant sequences (`_ON_STOPPED = (notify_stopped, send_status_stopped)`), usable in outputs= and as loop ranges
    consts = {}
    for st in node.body:
        if isinstance(st, ast.Assign) and len(st.targets) == 1 and isinstance(st.targets[0], ast.Name) \
                and isinstance(st.value, (ast.List, ast.Tuple, ast.BinOp)):
            consts[st.targets[0].id] = st.value

    def seq(e, env, depth=0):
        """elements of a literal sequence expression: list/tuple displays, class-level constants, `+` concatenation, *splat"""
        if depth > 8:
            raise AnalysisError("%s:%d: sequence expression in %s too deeply nested" % (file, e.lineno, ci.name))
        if isinstance(e, (ast.List, ast.Tuple)):
            out = []
            for x in e.elts:
                if isinstance(x, ast.Starred):
                    out.extend(seq(x.value, env, depth + 1))
                else:
                    out.append(x)
            return out
        if isinstance(e, ast.BinOp) and isinstance(e.op, ast.Add):
            return seq(e.left, env, depth + 1) + seq(e.right, env, depth + 1)
        if isinstance(e, ast.Name) and e.id in env and not isinstance(env[e.id], ast.Name):
            return seq(env[e.id], env, depth + 1)
        if isinstance(e, ast.Name) and e.id in consts:
            return seq(consts[e.id], env, depth + 1)
        if isinstance(e, ast.Call) and isinstance(e.func, ast.Name) and e.func.id in ("list", "tuple") and len(e.args) == 1:
            return seq(e.args[0], env, depth + 1)
        raise AnalysisError("%s:%d: sequence expression of an upon()/loop in %s is not a literal (unsupported idiom)" % (
            file, getattr(e, "lineno", 0), ci.name))

    def nm(n, what, env):
        if isinstance(n, ast.Name) and n.id in env and isinstance(env[n.id], ast.Name):
            n = env[n.id]
        return _name(n, what, ci)

    processed = set()

    def do_upon(st, env):
        c = st.value
        processed.add(id(c))
        src = ci.canon(nm(c.func.value, "state", env))
        inp = enter = None
        outs = None
        collector = None
        pos = list(c.args)
        if pos:
            inp = nm(pos[0], "input", env)
        if len(pos) > 1:
            enter = ci.canon(nm(pos[1], "enter", env))
        if len(pos) > 2:
            outs = pos[2]
        if len(pos) > 3:
            collector = pos[3]
        for k in c.keywords:
            if k.arg == "input":
                inp = nm(k.value, "input", env)
            elif k.arg == "enter":
                enter = ci.canon(nm(k.value, "enter", env))
            elif k.arg == "outputs":
                outs = k.value
            elif k.arg == "collector":
                collector = k.value
            else:
                raise AnalysisError("%s:%d: unknown upon() keyword %s" % (file, st.lineno, k.arg))
        outs_l = [] if outs is None else [nm(e, "output", env) for e in seq(outs, env)]
        if src not in ci.states:
            raise AnalysisError("%s:%d: upon() on unknown state %s in %s" % (file, st.lineno, src, ci.name))
        if inp not in ci.inputs:
            raise AnalysisError("%s:%d: upon() with unknown input %s in %s" % (file, st.lineno, inp, ci.name))
        if enter not in ci.states:
            raise AnalysisError("%s:%d: upon() entering unknown state %s in %s" % (file, st.lineno, enter, ci.name))
        for o in outs_l:
            if o not in ci.outputs:
                raise AnalysisError("%s:%d: upon() lists unknown output %s in %s" % (file, st.lineno, o, ci.name))
        if (src, inp) in ci.rows:
            raise AnalysisError("%s:%d: duplicate row (%s, %s) in %s" % (file, st.lineno, src, inp, ci.name))
        cname = dotted(collector) if collector is not None else None
        ci.rows[(src, inp)] = Row(src, inp, enter, outs_l, cname, st, file)

    def is_upon(st):
        return isinstance(st, ast.Expr) and isinstance(st.value, ast.Call) and isinstance(st.value.func, ast.Attribute) \
            and st.value.func.attr == "upon"

    def do_block(body, env):
        for st in body:
            if is_upon(st):
                do_upon(st, env)
            elif isinstance(st, ast.For) and any(is_upon(x) for x in ast.walk(st)):
                # `for inp in (a, b, c): S.upon(inp, ...)`: unrolled over the literal range
                if st.orelse:
                    raise AnalysisError("%s:%d: for/else around upon() in %s (unsupported idiom)" % (file, st.lineno, ci.name))
                for el in seq(st.iter, env):
                    env2 = dict(env)
                    if isinstance(st.target, ast.Name):
                        env2[st.target.id] = el
                    elif isinstance(st.target, ast.Tuple) and isinstance(el, (ast.Tuple, ast.List)) \
                            and len(el.elts) == len(st.target.elts) and all(isinstance(t, ast.Name) for t in st.target.elts):
                        for t, v in zip(st.target.elts, el.elts):
                            env2[t.id] = v
                    else:
                        raise AnalysisError("%s:%d: loop target around upon() in %s (unsupported idiom)" % (file, st.lineno, ci.name))
                    do_block(st.body, env2)

    do_block(node.body, {})
    # every upon() written in the class body must have been understood (rows built inside if/with/try/comprehensions are not)
    for st in node.body:
        if isinstance(st, (ast.FunctionDef, ast.AsyncFunctionDef)):
            continue
        for x in ast.walk(st):
            if isinstance(x, ast.Call) and isinstance(x.func, ast.Attribute) and x.func.attr == "upon" and id(x) not in processed:
                raise AnalysisError("%s:%d: upon() in %s built in a way the extractor does not understand" % (file, x.lineno, ci.name))
    if ci.initial is None:
        raise AnalysisError("%s: machine %s has no initial state" % (file, ci.name))
    return ci


class Program:
    """All classes of the package, machines extracted, wiring resolved."""

    def __init__(self, tree):
        self.tree = tree
        self.classes = OrderedDict()
        self.iface_impl = {}
        for p in tree.paths():
            for n in tree.ast(p).body:
                if isinstance(n, ast.ClassDef):
                    ci = extract_class(n, p)
                    # first definition wins for duplicates across files; record all by qualified key too
                    key = n.name if n.name not in self.classes else "%s:%s" % (p, n.name)
                    self.classes[key] = ci
                    for i in ci.implements:
                        self.iface_impl.setdefault(i, []).append(ci.name)
        self.machines = OrderedDict((k, c) for k, c in self.classes.items() if c.is_machine)
        self._wire()

    def _wire(self):
        for c in self.classes.values():
            for fld, iname in c.field_ifaces.items():
                impl = self.iface_impl.get(iname)
                if impl and len(impl) == 1:
                    c.wiring.setdefault(fld, impl[0])
        for c in self.classes.values():
            for fn in list(c.methods.values()):
                for n in ast.walk(fn):
                    if isinstance(n, ast.Assign) and len(n.targets) == 1:
                        t = n.targets[0]
                        if isinstance(t, ast.Attribute) and isinstance(t.value, ast.Name) and t.value.id == "self" \
                                and isinstance(n.value, ast.Call):
                            f = n.value.func
                            fname = f.attr if isinstance(f, ast.Attribute) else getattr(f, "id", None)
                            impl = self.iface_impl.get(fname)
                            if impl:
                                if len(impl) == 1:
                                    c.wiring[t.attr] = impl[0]
                                else:
                                    c.wiring[t.attr] = tuple(impl)
                            elif fname in self.classes:
                                c.wiring[t.attr] = fname
                        elif isinstance(t, ast.Attribute) and isinstance(t.value, ast.Name) and t.value.id == "self" \
                                and isinstance(n.value, ast.Name):
                            # self._x = <local>  where the local is bound once to a constructor call of a package class
                            defs = [a.value for a in ast.walk(fn) if isinstance(a, ast.Assign) and len(a.targets) == 1
                                    and isinstance(a.targets[0], ast.Name) and a.targets[0].id == n.value.id]
                            if len(defs) == 1 and isinstance(defs[0], ast.Call):
                                f2 = defs[0].func
                                fn2 = f2.attr if isinstance(f2, ast.Attribute) else getattr(f2, "id", None)
                                if fn2 in self.classes and t.attr not in c.wiring:
                                    c.wiring[t.attr] = fn2

    def machine(self, name):
        c = self.classes.get(name)
        if c is None or not c.is_machine:
            raise AnchorMissing("machine class %s not found" % name)
        return c

    def cls(self, name):
        c = self.classes.get(name)
        if c is None:
            raise AnchorMissing("class %s not found" % name)
        return c

    def counts(self):
        ms = self.machines.values()
        return dict(machines=len(self.machines), states=sum(len(m.states) for m in ms),
                    inputs=sum(len(m.inputs) for m in ms), outputs=sum(len(m.outputs) for m in ms),
                    rows=sum(len(m.rows) for m in ms))


def output_calls(ci, name, depth=4, _seen=None):
    """Call nodes made by output/method `name` of class ci, following self.<plain method>() up to depth."""
    fn = ci.outputs.get(name) or ci.methods.get(name)
    res = []
    if fn is None or depth == 0:
        return res
    _seen = _seen if _seen is not None else set()
    if name in _seen:
        return res
    _seen.add(name)
    for n in ast.walk(fn):
        if isinstance(n, ast.Call):
            res.append(n)
            d = dotted(n.func)
            if d and d.startswith("self.") and d.count(".") == 1:
                callee = d.split(".")[1]
                if callee in ci.methods:
                    res.extend(output_calls(ci, callee, depth - 1, _seen))
    return res


def output_call_names(ci, name, depth=4):
    return [dotted(c.func) for c in output_calls(ci, name, depth) if dotted(c.func)]


def row_call_names(ci, row, depth=4):
    out = []
    for o in row.outputs:
        out.extend(output_call_names(ci, o, depth))
    return out
