"""Callback chains of one Deferred, read off a function body.

`d = <expr>` followed by `d.addCallback(f)`, `d.addErrback(g)`, `d.addBoth(h)`, `d.addCallbacks(f, g)` statements (also chained:
`d.addErrback(g).addBoth(h)`, and `<expr>.addCallback(f)` without a local) give an ordered list of stages.  The abstract state of the
chain is the set of outcomes it may be in, a subset of {ok, fail}; a stage runs its function on the outcomes it is registered for:

    addCallback(f)     ok -> f;    fail passes
    addErrback(g)      fail -> g;  ok passes
    addBoth(h)         ok -> h, fail -> h
    addCallbacks(f,g)  ok -> f, fail -> g

After a function ran the outcome is ok if it is a known swallower (log.err, log.msg: they return None), {ok, fail} otherwise (any
other function may raise or return a Failure; `f.trap(..)` re-raises what it does not name).
"""
import ast

from .astutil import dotted

SWALLOWERS = ("log.err", "log.msg", "twisted.python.log.err")
_ADD = ("addCallback", "addErrback", "addBoth", "addCallbacks")


def _stage_calls(fn, var):
    """add* calls on local `var` in source order, flattened through method chaining"""
    out = []
    for st in ast.walk(fn):
        if not isinstance(st, ast.Expr) or not isinstance(st.value, ast.Call):
            continue
        chain = []
        c = st.value
        while isinstance(c, ast.Call) and isinstance(c.func, ast.Attribute) and c.func.attr in _ADD:
            chain.append(c)
            c = c.func.value
        if chain and isinstance(c, ast.Name) and c.id == var:
            out.extend(reversed(chain))
    out.sort(key=lambda c: (c.lineno, c.col_offset))
    return out


def stages(fn, var):
    """[(kind, on_ok_fn_node|None, on_fail_fn_node|None, call)]"""
    res = []
    for c in _stage_calls(fn, var):
        k = c.func.attr
        a = c.args
        if k == "addCallback":
            res.append((k, a[0] if a else None, None, c))
        elif k == "addErrback":
            res.append((k, None, a[0] if a else None, c))
        elif k == "addBoth":
            res.append((k, a[0] if a else None, a[0] if a else None, c))
        else:
            eb = a[1] if len(a) > 1 else next((kw.value for kw in c.keywords if kw.arg == "errback"), None)
            res.append((k, a[0] if a else None, eb, c))
    return res


def _after(f):
    return {"ok"} if (f is not None and dotted(f) in SWALLOWERS) else {"ok", "fail"}


def runs_always(fn, var, is_target, initial=("ok", "fail")):
    """(found, always, missing): whether a stage whose function satisfies is_target exists, whether it runs on every outcome the chain
    can be in when it is reached, and the outcomes on which it does not run"""
    state = set(initial)
    for (k, on_ok, on_fail, c) in stages(fn, var):
        hit_ok = on_ok is not None and is_target(on_ok)
        hit_fail = on_fail is not None and is_target(on_fail)
        if hit_ok or hit_fail:
            missing = set()
            if "ok" in state and not hit_ok:
                missing.add("ok")
            if "fail" in state and not hit_fail:
                missing.add("fail")
            return True, not missing, sorted(missing)
        new = set()
        if "ok" in state:
            new |= _after(on_ok) if on_ok is not None else {"ok"}
        if "fail" in state:
            new |= _after(on_fail) if on_fail is not None else {"fail"}
        state = new
    return False, False, sorted(state)


def preserves_failure(f):
    """an errback function (FunctionDef or Lambda with the failure as first parameter) that can only end by raising or by returning
    that very parameter: the chain stays failed after it.  `f.trap(..)` RETURNS (the matched class) for the exceptions it names and a
    function that falls off its end returns None - both turn the failure into a success."""
    args = f.args.args
    if isinstance(f, ast.Lambda):
        p = args[0].arg if args else None
        return isinstance(f.body, ast.Name) and f.body.id == p
    skip = 1 if (args and args[0].arg == "self") else 0
    p = args[skip].arg if len(args) > skip else None
    from .cfg import build
    g = build(f)
    rets = [s for s in ast.walk(f) if isinstance(s, ast.Return)]
    for r in rets:
        if not (isinstance(r.value, ast.Name) and r.value.id == p):
            return False
    # falling off the end = implicit `return None`: the normal exit must be reached through a Return statement only
    for (x, lab) in g.pred[g.exit]:
        if not isinstance(g.stmt.get(x), ast.Return):
            return False
    stores = [n for n in ast.walk(f) if isinstance(n, ast.Name) and n.id == p and isinstance(n.ctx, ast.Store)]
    return not stores


def failure_to_success_stages(fn, var, resolve):
    """stages of the chain on `var` whose errback-side function may turn a failure into a success.  resolve(expr) -> function node or
    None (unknown callables count as converting)"""
    out = []
    for (k, on_ok, on_fail, c) in stages(fn, var):
        if on_fail is None:
            continue
        if dotted(on_fail) in SWALLOWERS:
            out.append(c)
            continue
        target = resolve(on_fail)
        if target is None or not preserves_failure(target):
            out.append(c)
    return out
