"""Callback chains of one Deferred, read off a function body.

`d = <expr>` followed by `d.addCallback(f)`, `d.addErrback(g)`, `d.addBoth(h)`, `d.addCallbacks(f, g)` statements (also chained:
`d.addErrback(g).addBoth(h)`, and `<expr>.addCallback(f)` without a local) give an ordered list of stages.  The abstract state of the
chain is the set of outcomes it may be in, a subset of {ok, fail}; a stage runs its function on the outcomes it is registered for:

    addCallback(f)     ok -> f;    fail passes
    addErrback(g)      fail -> g;  ok passes
    addBoth(h)         ok -> h, fail -> h
    addCallbacks(f,g)  ok -> f, fail -> g

After a function ran the outcome is ok if it is a known swallower (log.err, log.msg: they return None), {ok, fail} otherwise (any
other function may raise or return a Failure; `f.trap(..)` re-raises what it does not name).
"""
import ast

from .astutil import dotted

SWALLOWERS = ("log.err", "log.msg", "twisted.python.log.err")
_ADD = ("addCallback", "addErrback", "addBoth", "addCallbacks")


def _stage_calls(fn, var):
    """add* calls on local `var` in source order, flattened through method chaining"""
    out = []
    for st in ast.walk(fn):
        if not isinstance(st, ast.Expr) or not isinstance(st.value, ast.Call):
            continue
        chain = []
        c = st.value
        while isinstance(c, ast.Call) and isinstance(c.func, ast.Attribute) and c.func.attr in _ADD:
            chain.append(c)
            c = c.func.value
        if chain and isinstance(c, ast.Name) and c.id == var:
            out.extend(reversed(chain))
    out.sort(key=lambda c: (c.lineno, c.col_offset))
    return out


def stages(fn, var):
    """[(kind, on_ok_fn_node|None, on_fail_fn_node|None, call)]"""
    res = []
    for c in _stage_calls(fn, var):
        k = c.func.attr
        a = c.args
        if k == "addCallback":
            res.append((k, a[0] if a else None, None, c))
        elif k == "addErrback":
            res.append((k, None, a[0] if a else None, c))
        elif k == "addBoth":
            res.append((k, a[0] if a else None, a[0] if a else None, c))
        else:
            eb = a[1] if len(a) > 1 else next((kw.value for kw in c.keywords if kw.arg == "errback"), None)
            res.append((k, a[0] if a else None, eb, c))
    return res


def _after(f):
    return {"ok"} if (f is not None and dotted(f) in SWALLOWERS) else {"ok", "fail"}


def runs_always(fn, var, is_target, initial=("ok", "fail")):
    """(found, always, missing): whether a stage whose function satisfies is_target exists, whether it runs on every outcome the chain
    can be in when it is reached, and the outcomes on which it does not run"""
    state = set(initial)
    for (k, on_ok, on_fail, c) in stages(fn, var):
        hit_ok = on_ok is not None and is_target(on_ok)
        hit_fail = on_fail is not None and is_target(on_fail)
        if hit_ok or hit_fail:
            missing = set()
            if "ok" in state and not hit_ok:
                missing.add("ok")
            if "fail" in state and not hit_fail:
                missing.add("fail")
            return True, not missing, sorted(missing)
        new = set()
        if "ok" in state:
            new |= _after(on_ok) if on_ok is not None else {"ok"}
        if "fail" in state:
            new |= _after(on_fail) if on_fail is not None else {"fail"}
        state = new
    return False, False, sorted(state)


def preserves_failure(f):
    """an errback function (FunctionDef or Lambda with the failure as first parameter) that can only end by raising or by returning
    that very parameter: the chain stays failed after it.  `f.trap(..)` RETURNS (the matched class) for the exceptions it names and a
    function that falls off its end returns None - both turn the failure into a success."""
    args = f.args.args
    if isinstance(f, ast.Lambda):
        p = args[0].arg if args else None
        return isinstance(f.body, ast.Name) and f.body.id == p
    skip = 1 if (args and args[0].arg == "self") else 0
    p = args[skip].arg if len(args) > skip else None
    from .cfg import build
    g = build(f)
    rets = [s for s in ast.walk(f) if isinstance(s, ast.Return)]
    for r in rets:
        if not (isinstance(r.value, ast.Name) and r.value.id == p):
            return False
    # falling off the end = implicit `return None`: the normal exit must be reached through a Return statement only
    for (x, lab) in g.pred[g.exit]:
        if not isinstance(g.stmt.get(x), ast.Return):
            return False
    stores = [n for n in ast.walk(f) if isinstance(n, ast.Name) and n.id == p and isinstance(n.ctx, ast.Store)]
    return not stores


def failure_to_success_stages(fn, var, resolve):
    """stages of the chain on `var` whose errback-side function may turn a failure into a success.  resolve(expr) -> function node or
    None (unknown callables count as converting)"""
    out = []
    for (k, on_ok, on_fail, c) in stages(fn, var):
        if on_fail is None:
            continue
        if dotted(on_fail) in SWALLOWERS:
            out.append(c)
            continue
        target = resolve(on_fail)
        if target is None or not preserves_failure(target):
            out.append(c)
    return out


def _returned_chain(callee, methods, depth):
    """stages already attached to the Deferred a helper method returns: `d = ..; d.addErrback(..); return d` or
    `return <expr>.addErrback(..)`"""
    out = []
    for r in ast.walk(callee):
        if isinstance(r, ast.Return) and r.value is not None:
            out = expr_stages(callee, r.value, methods, depth - 1)
            break
    return out


def expr_stages(fn, expr, methods=None, depth=3):
    """the stages on the Deferred denoted by `expr` inside fn, oldest first: a local (its own add* statements, after whatever its
    defining expression carries), a chained `<expr>.addX(..)` call, or a call of a method of the same class that returns a Deferred
    with stages already attached (followed through `methods`: name -> FunctionDef)"""
    if depth < 0:
        return []
    chain = []
    e = expr
    while isinstance(e, ast.Call) and isinstance(e.func, ast.Attribute) and e.func.attr in _ADD:
        chain.append(e)
        e = e.func.value
    chain.reverse()
    base = []
    if isinstance(e, ast.Name):
        defs = [a.value for a in ast.walk(fn) if isinstance(a, ast.Assign) and len(a.targets) == 1 and isinstance(a.targets[0], ast.Name)
                and a.targets[0].id == e.id]
        if len(defs) == 1:
            base = expr_stages(fn, defs[0], methods, depth - 1)
        # every add* statement on that local, in source order (the chain under `expr` is among them when expr is such a statement)
        stmts_ = _stage_calls(fn, e.id)
        base = base + stmts_
        chain = [c for c in chain if c not in stmts_]
    elif isinstance(e, ast.Call) and methods is not None and isinstance(e.func, ast.Attribute) and isinstance(e.func.value, ast.Name) \
            and e.func.value.id == "self" and e.func.attr in methods:
        base = _returned_chain(methods[e.func.attr], methods, depth)
    out = []
    for c in base:
        out.append(c if isinstance(c, tuple) else _as_stage(c))
    for c in chain:
        out.append(_as_stage(c))
    return out


def _as_stage(c):
    k = c.func.attr
    a = c.args
    if k == "addCallback":
        return (k, a[0] if a else None, None, c)
    if k == "addErrback":
        return (k, None, a[0] if a else None, c)
    if k == "addBoth":
        return (k, a[0] if a else None, a[0] if a else None, c)
    eb = a[1] if len(a) > 1 else next((kw.value for kw in c.keywords if kw.arg == "errback"), None)
    return (k, a[0] if a else None, eb, c)


def runs_always_in(stage_list, is_target, initial=("ok", "fail")):
    """like runs_always, over an explicit stage list"""
    state = set(initial)
    for (k, on_ok, on_fail, c) in stage_list:
        hit_ok = on_ok is not None and is_target(on_ok)
        hit_fail = on_fail is not None and is_target(on_fail)
        if hit_ok or hit_fail:
            missing = set()
            if "ok" in state and not hit_ok:
                missing.add("ok")
            if "fail" in state and not hit_fail:
                missing.add("fail")
            return True, not missing, sorted(missing)
        new = set()
        if "ok" in state:
            new |= _after(on_ok) if on_ok is not None else {"ok"}
        if "fail" in state:
            new |= _after(on_fail) if on_fail is not None else {"fail"}
        state = new
    return False, False, sorted(state)
