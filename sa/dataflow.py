"""Engine B: intra-procedural def-use helpers, argument plumbing and a small taint analysis.

Locals in this code base are overwhelmingly single-assignment; a multiply-assigned
local makes a rule consider all its definitions.
"""
import ast

from .astutil import (dotted, local_defs, OPAQUE, params, walk_shallow, parent, ancestors, is_self_attr,
                      resolve_local, strip_yield)


def reaches(fn, expr, wanted, depth=6, _seen=None):
    """Which of the names / dotted attributes in `wanted` does `expr` depend on (transitively through
    local assignments of fn)?  Returns the subset found."""
    _seen = _seen if _seen is not None else set()
    found = set()
    for n in ast.walk(expr):
        if isinstance(n, ast.Name):
            if n.id in wanted:
                found.add(n.id)
            elif n.id not in _seen and depth > 0:
                _seen.add(n.id)
                for d in local_defs(fn, n.id):
                    if d is not OPAQUE:
                        found |= reaches(fn, d, wanted, depth - 1, _seen)
        elif isinstance(n, ast.Attribute):
            d = dotted(n)
            if d in wanted:
                found.add(d)
    return found


def expand(fn, expr, depth=6, stop=()):
    """expr with single-definition locals substituted by their definitions (a new tree; originals untouched).
    Names in `stop` are kept (use it for objects that are mutated after their definition: hashers, lists)."""
    import copy

    class Sub(ast.NodeTransformer):
        def __init__(self, depth):
            self.depth = depth

        def visit_Name(self, node):
            if self.depth <= 0 or not isinstance(node.ctx, ast.Load) or node.id in params(fn, skip_self=False) \
                    or node.id in stop:
                return node
            defs = local_defs(fn, node.id)
            if len(defs) == 1 and defs[0] is not OPAQUE:
                d = defs[0]
                if isinstance(d, (ast.List, ast.Dict, ast.Set)) or (isinstance(d, ast.Call) and isinstance(d.func, ast.Name)
                                                                    and d.func.id in ("list", "dict", "set", "bytearray")):
                    built = _built_list(fn, node, d)
                    if built is None:
                        return node          # a display mutated after its definition is not its definition
                    d = built
                return Sub(self.depth - 1).visit(copy.deepcopy(d))
            return node
    return Sub(depth).visit(copy.deepcopy(expr))


_MUTATORS = {"append", "extend", "insert", "pop", "remove", "clear", "sort", "reverse", "add", "discard", "update", "setdefault",
             "popitem", "appendleft", "popleft"}


def _built_list(fn, use, definition):
    """the value of a once-bound local display at `use`: the display itself when nothing mutates it; a list literal
    followed by `name.append(e)` statements in the same block (straight-line, before the use) is the literal with those
    elements appended; any other mutation -> None"""
    name = use.id
    muts = []
    for n in walk_shallow(fn):
        if isinstance(n, ast.Attribute) and isinstance(n.value, ast.Name) and n.value.id == name and n.attr in _MUTATORS:
            muts.append(n)
        elif isinstance(n, ast.Subscript) and isinstance(n.value, ast.Name) and n.value.id == name and isinstance(n.ctx, (ast.Store, ast.Del)):
            return None
        elif isinstance(n, ast.AugAssign) and isinstance(n.target, ast.Name) and n.target.id == name:
            return None
    if not muts:
        return definition
    if not isinstance(definition, ast.List):
        return None
    dst = getattr(definition, "_parent", None)
    block = None
    if isinstance(dst, ast.Assign):
        par = getattr(dst, "_parent", None)
        for f in ("body", "orelse", "finalbody"):
            if dst in (getattr(par, f, None) or []):
                block = getattr(par, f)
    if block is None:
        return None
    elts = list(definition.elts)
    upos = (getattr(use, "lineno", 0), getattr(use, "col_offset", 0))
    for m in muts:
        call = getattr(m, "_parent", None)
        st = getattr(call, "_parent", None)
        if not (m.attr == "append" and isinstance(call, ast.Call) and call.func is m and len(call.args) == 1 and not call.keywords
                and isinstance(st, ast.Expr) and st in block and block.index(st) > block.index(dst)
                and (st.lineno, st.col_offset) < upos):
            return None
    for st in block[block.index(dst) + 1:]:
        if isinstance(st, ast.Expr) and isinstance(st.value, ast.Call) and isinstance(st.value.func, ast.Attribute) and st.value.func in muts:
            elts.append(st.value.args[0])
    out = ast.List(elts=elts, ctx=ast.Load())
    return ast.copy_location(out, definition)


def call_arg(call, pos=None, kw=None):
    """argument node by position and/or keyword, else None"""
    if kw is not None:
        for k in call.keywords:
            if k.arg == kw:
                return k.value
    if pos is not None and pos < len(call.args) and not any(isinstance(a, ast.Starred) for a in call.args[:pos + 1]):
        return call.args[pos]
    return None


def is_call_to(node, name):
    """Call whose dotted callee equals name, or ends with '.'+name when name has no dot"""
    if not isinstance(node, ast.Call):
        return False
    d = dotted(node.func)
    if d is None:
        return False
    return d == name or ("." not in name and d.split(".")[-1] == name)


def uses_of(fn, name):
    """Load uses of local/param `name` in fn (Name nodes)"""
    return [n for n in walk_shallow(fn) if isinstance(n, ast.Name) and n.id == name and isinstance(n.ctx, ast.Load)]


def passes_param(fn, call, pname, accept_self_attr=True):
    """does `call` receive the function's parameter pname (or self._pname / self.pname) as an argument?"""
    for a in list(call.args) + [k.value for k in call.keywords]:
        a = resolve_local(fn, a)
        if isinstance(a, ast.Name) and a.id == pname:
            return True
        if accept_self_attr and is_self_attr(a) and a.attr in (pname, "_" + pname):
            return True
    return False


def expand_flow(fn, node, depth=8):
    """Like expand(), but flow-aware for straight-line code: a Name is replaced by the nearest assignment to it that
    lexically precedes the use (so `p = join(a, b); p = abspath(p)` resolves the later use to abspath(join(a, b))).
    Parameters and names without a preceding plain assignment are kept."""
    import copy
    assigns = [n for n in walk_shallow(fn) if isinstance(n, ast.Assign) and len(n.targets) == 1 and isinstance(n.targets[0], ast.Name)]

    def pos(n):
        return (getattr(n, "lineno", 0), getattr(n, "col_offset", 0))

    def sub(e, before, d):
        class T(ast.NodeTransformer):
            def visit_Name(self, nm):
                if d <= 0 or not isinstance(nm.ctx, ast.Load):
                    return nm
                prev = [a for a in assigns if a.targets[0].id == nm.id and pos(a) < before]
                if not prev:
                    return nm
                a = max(prev, key=pos)
                return sub(copy.deepcopy(a.value), pos(a), d - 1)
        return T().visit(e)
    return sub(copy.deepcopy(node), pos(node), depth)
