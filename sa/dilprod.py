"""Engine A5: two-party dilation product.

The abstract interpreter of engine A3 (sa/typestate.py) is run on the *source* of the dilation control plane -
`Manager`, `TrafficTimer`, `Connector` (three Automat machines and the plain methods around them) - once for the
Leader and once for the Follower, and the two sides are composed with a small hand-written model of what lies between
them: the two in-order mailbox channels that carry the `dilate-N` messages (what one side's `Manager` hands to
`Send.send` is what the other side's `Manager.received_dilation_message` gets, in order, once the Dilator has delivered
the peer's versions and until that side stops), and the peer-to-peer links (TCP connections with an L2 handshake):
a link can come up while both Connectors race, the Leader's end completes its handshake first (`add_candidate`), the
Leader's `accept` selects it and sends KCM, the Follower's end offers itself on KCM, either end can die at any moment
and the other end notices some time later.  Timers (`callLater`) and `eventually()` calls are continuations the
environment fires later, exactly as in A3.

Decided over the reachable joint states (every interleaving of message delivery, link events, timer expiries, pongs
and `stop()` on either side):
  * no Automat machine of either side receives an input it has no row for, no assertion on a tracked attribute fails,
    no builtin error is raised explicitly                                                     (C14, C11, C17)
  * each side uses at most one connection at a time; a new generation's Connector is never created while the previous
    one is still racing; nothing pending outlives its Connector                               (C11)
  * from every reachable state in which nobody has stopped, a state is reachable in which both Managers are connected
    over the same live link (no deadlock: AG EF converged)                                    (C11)
  * after `stop()` the Manager of that side always can reach its terminal state, and when it is there no Connector
    is racing, no timer is pending and no connection is in use                                (C17)
  * the Leader asks to drop a connection at the latest at the second timer expiry after the last pong / the start of
    the connection, and never while no ping has gone unanswered over an expiry                (C16)

Nothing of /repo is imported or executed.
"""
import ast
import collections
import sys
import time

from .srcmodel import AnalysisError, AnchorMissing
from .typestate import Interp, S, C, D, FL, FS, TUP, METH, OBJV, truth, Ctx, Result, EventBudgetExceeded

SCOPE = ("Manager", "TrafficTimer", "Connector")
ROLE_NAMES = ("LEADER", "FOLLOWER")
KEEP_CONST = {("Manager", "_my_role"), ("Connector", "_role"), ("Manager", "_my_side")}
SIDES = {"L": "side-b", "F": "side-a"}      # the lexicographically larger side is the Leader
EMPTY = TUP(())
ZERO = C(0)


def _self_attr(e):
    return e.attr if isinstance(e, ast.Attribute) and isinstance(e.value, ast.Name) and e.value.id == "self" else None


class DilInterp(Interp):
    def __init__(self, prog):
        Interp.__init__(self, prog)
        A = self.ALL
        for c in SCOPE:
            if c not in A or not A[c].is_machine:
                raise AnchorMissing("dilation machine class %s not found" % c)
        self.scope = set(SCOPE)
        self.timer_cids = set()
        self.opaque = set()
        self.instantiable = {"TrafficTimer", "Connector"}
        M, K, T = A["Manager"], A["Connector"], A["TrafficTimer"]
        self.M, self.K, self.T = M, K, T
        for m in ("received_dilation_message", "connector_connection_made", "connector_connection_lost",
                  "got_wormhole_versions", "send_ping"):
            if m not in M.methods:
                raise AnchorMissing("Manager.%s not found" % m)
        for i in ("stop",):
            if i not in M.inputs:
                raise AnchorMissing("Manager input %s not found" % i)
        for i in ("add_candidate", "accept", "listener_ready", "got_hints", "stop"):
            if i not in K.inputs:
                raise AnchorMissing("Connector input %s not found" % i)
        for i in ("traffic_seen", "interval_elapsed", "got_connection", "lost_connection"):
            if i not in T.inputs:
                raise AnchorMissing("TrafficTimer input %s not found" % i)
        # the parts of the Connector that talk to the network are the environment's business (links, listener_ready)
        self.opaque_methods = set()
        for m in ("start", "_use_hints"):
            if m not in K.methods:
                raise AnchorMissing("Connector.%s not found" % m)
            self.opaque_methods.add(("Connector", m))
        # the attribute of the Manager that holds the connection in use: assigned from connector_connection_made's parameter
        fn = M.methods["connector_connection_made"]
        params = [a.arg for a in fn.args.args][1:]
        self.conn_attr = None
        for n in ast.walk(fn):
            if isinstance(n, ast.Assign) and len(n.targets) == 1 and _self_attr(n.targets[0]) and isinstance(n.value, ast.Name) \
                    and params and n.value.id == params[0]:
                self.conn_attr = n.targets[0].attr
        if self.conn_attr is None:
            raise AnchorMissing("Manager.connector_connection_made no longer stores the connection in an attribute")
        # the attribute that holds the ping timer: assigned from a callLater() call
        self.timer_attr = None
        for fn in list(M.methods.values()) + list(M.outputs.values()):
            for n in ast.walk(fn):
                if isinstance(n, ast.Assign) and len(n.targets) == 1 and _self_attr(n.targets[0]) and isinstance(n.value, ast.Call) \
                        and isinstance(n.value.func, ast.Attribute) and n.value.func.attr == "callLater":
                    self.timer_attr = n.targets[0].attr
        if self.timer_attr is None:
            raise AnchorMissing("Manager no longer keeps its ping timer (a callLater() result) in an attribute")
        # the attribute that holds the ping interval: the delay handed to that callLater()
        self.interval_attr = None
        for fn in list(M.methods.values()) + list(M.outputs.values()):
            for n in ast.walk(fn):
                if isinstance(n, ast.Call) and isinstance(n.func, ast.Attribute) and n.func.attr == "callLater" and n.args and _self_attr(n.args[0]):
                    self.interval_attr = n.args[0].attr
        self.rtt_names = set()
        self.rtt_assumption_used = False
        # Connector functions that disconnect every pending connection
        self.pend_attr = "_pending_connections"
        self.pend_disc = set()
        for name, fn in list(K.methods.items()) + list(K.outputs.items()):
            for n in ast.walk(fn):
                it = None
                if isinstance(n, ast.For):
                    it, body = n.iter, n.body
                elif isinstance(n, (ast.ListComp, ast.GeneratorExp, ast.SetComp)):
                    it, body = n.generators[0].iter, [n.elt]
                if it is None:
                    continue
                base = it
                while isinstance(base, ast.Call) and base.args:      # list(self._pending_connections)
                    base = base.args[0]
                if _self_attr(base) == self.pend_attr and any(
                        isinstance(x, ast.Call) and isinstance(x.func, ast.Attribute) and x.func.attr in ("disconnect", "loseConnection", "abortConnection")
                        for b in body for x in ast.walk(b)):
                    self.pend_disc.add(name)
        if not self.pend_disc:
            raise AnchorMissing("no Connector function disconnects the pending connections")

    # -- values ------------------------------------------------------------------------------------------------
    def ev(self, e, st, ctx):
        if isinstance(e, ast.Name) and e.id in ROLE_NAMES and e.id not in ctx.locs:
            return C("<role:%s>" % e.id)
        if isinstance(e, ast.Name) and e.id not in ctx.locs:
            mc = self._module_consts(ctx.cls.file)
            if e.id in mc:
                return mc[e.id]
        if isinstance(e, ast.Dict):
            if all(isinstance(k, ast.Constant) and isinstance(k.value, str) for k in e.keys):
                return D({k.value: self.ev(v, st, ctx) for k, v in zip(e.keys, e.values)})
            return 'U'
        a = _self_attr(e)
        if a is not None and ('a', ctx.cls.name, a) not in st and (a in ctx.cls.methods or a in ctx.cls.inputs):
            return METH(ctx.cls.name, a)
        if isinstance(e, ast.Call) and isinstance(e.func, ast.Name) and e.func.id == "dict_to_bytes" and len(e.args) == 1:
            return self.ev(e.args[0], st, ctx)
        if isinstance(e, ast.Compare) and len(e.ops) == 1 and self.rtt_names and self.interval_attr:
            # inside the pong callback: its argument is a round-trip time of at most one ping interval (C16: "a peer that answers
            # every ping within one interval"); comparisons with k * interval are decided on that basis
            def mult(x):
                if _self_attr(x) == self.interval_attr:
                    return 1.0
                if isinstance(x, ast.BinOp) and isinstance(x.op, ast.Mult):
                    for a, b in ((x.left, x.right), (x.right, x.left)):
                        if _self_attr(a) == self.interval_attr and isinstance(b, ast.Constant) and isinstance(b.value, (int, float)) \
                                and not isinstance(b.value, bool):
                            return float(b.value)
                return None
            lft, rgt, op0 = e.left, e.comparators[0], type(e.ops[0])
            flip = {ast.Lt: ast.Gt, ast.Gt: ast.Lt, ast.LtE: ast.GtE, ast.GtE: ast.LtE}
            if isinstance(rgt, ast.Name) and rgt.id in self.rtt_names and op0 in flip:
                lft, rgt, op0 = rgt, lft, flip[op0]
            if isinstance(lft, ast.Name) and lft.id in self.rtt_names and op0 in flip and ctx.locs.get(lft.id) == 'U':
                k = mult(rgt)
                if k is not None and k >= 1:
                    self.rtt_assumption_used = True
                    if op0 is ast.LtE:
                        return 'T'
                    if op0 is ast.Gt:
                        return 'F'
                    if k > 1:
                        return 'T' if op0 is ast.Lt else 'F'
        if isinstance(e, ast.Compare) and len(e.ops) == 1:
            l = self.ev(e.left, st, ctx)
            r = self.ev(e.comparators[0], st, ctx)
            op = e.ops[0]
            role = lambda v: isinstance(v, C) and isinstance(v.v, str) and v.v.startswith("<role:")
            if isinstance(op, (ast.Is, ast.IsNot, ast.Eq, ast.NotEq)) and (role(l) or role(r)):
                if isinstance(l, C) and isinstance(r, C):
                    res = 'T' if l is r else 'F'
                else:
                    res = 'U'
                return res if isinstance(op, (ast.Is, ast.Eq)) else {'T': 'F', 'F': 'T'}.get(res, 'U')
            if isinstance(op, (ast.In, ast.NotIn)) and isinstance(l, C) and isinstance(r, (TUP, FL)) and all(isinstance(x, C) for x in r.items):
                res = 'T' if l in r.items else 'F'
                return res if isinstance(op, ast.In) else {'T': 'F', 'F': 'T'}[res]
            if isinstance(op, (ast.Gt, ast.Lt, ast.GtE, ast.LtE)) and isinstance(l, C) and isinstance(r, C) \
                    and type(l.v) is type(r.v) and isinstance(l.v, (str, int)) and not isinstance(l.v, bool):
                res = {ast.Gt: l.v > r.v, ast.Lt: l.v < r.v, ast.GtE: l.v >= r.v, ast.LtE: l.v <= r.v}[type(op)]
                return 'T' if res else 'F'
        return Interp.ev(self, e, st, ctx)

    def _module_consts(self, file):
        """module-level names bound once to a literal: a str / int / bytes / bool / None constant, or a display of such (read as a set)"""
        cache = self.__dict__.setdefault("_modconst_cache", {})
        if file not in cache:
            out, seen = {}, collections.Counter()
            for n in self.prog.tree.ast(file).body:
                if isinstance(n, ast.Assign):
                    for t in n.targets:
                        for x in ast.walk(t):
                            if isinstance(x, ast.Name):
                                seen[x.id] += 1
                    if len(n.targets) == 1 and isinstance(n.targets[0], ast.Name):
                        try:
                            v = ast.literal_eval(n.value)
                        except Exception:
                            continue
                        if v is None or isinstance(v, (str, int, bytes, bool)):
                            out[n.targets[0].id] = C(v)
                        elif isinstance(v, (tuple, list, set, frozenset)) and all(isinstance(x, (str, int, bytes)) for x in v):
                            out[n.targets[0].id] = FS(frozenset(C(x) for x in v))
            cache[file] = {k: v for k, v in out.items() if seen[k] == 1}
        return cache[file]

    @staticmethod
    def bind(fn, argvals, kwvals):
        ps = [a.arg for a in fn.args.args][1:]
        locs = {}
        for p_, v in zip(ps, argvals):
            locs[p_] = v
        rest = {}
        for k, v in kwvals.items():
            if k in ps or k in [a.arg for a in fn.args.kwonlyargs]:
                locs[k] = v
            else:
                rest[k] = v
        if fn.args.kwarg:
            locs[fn.args.kwarg.arg] = D(rest)
        else:
            locs.update(rest)
        return locs

    def eval_expr(self, e, st, ctx):
        # f(**d) with an abstract dict d of constant keys: expanded into keywords
        if isinstance(e, ast.Call) and any(k.arg is None for k in e.keywords):
            extra = {}
            plain = []
            for k in e.keywords:
                if k.arg is None:
                    v = self.ev(k.value, st, ctx)
                    if not isinstance(v, D):
                        return Interp.eval_expr(self, e, st, ctx)
                    extra.update(v.d)
                else:
                    plain.append(k)
            call2 = ast.Call(func=e.func, args=e.args, keywords=plain)
            ast.copy_location(call2, e)
            call2._parent = getattr(e, "_parent", None)
            res = []
            for (s, av, kv) in self._eval_args(call2, st, ctx):
                kv2 = dict(extra)
                kv2.update(kv)
                res.extend(self.do_call(e, s, ctx, av, kv2))
            return res
        return Interp.eval_expr(self, e, st, ctx)

    def _eval_args(self, e, st, ctx):
        av = [self.ev(a, st, ctx) for a in e.args]
        kv = {k.arg: self.ev(k.value, st, ctx) for k in e.keywords}
        return [(st, av, kv)]

    def _assign_attr(self, s2, cls, attr, v):
        if (cls.name, attr) in KEEP_CONST and isinstance(v, C):
            s2 = s2.cp()
            s2[('a', cls.name, attr)] = v
            return s2
        return Interp._assign_attr(self, s2, cls, attr, v)

    def _run_simple(self, stmt, st, ctx):
        # d["k"] = v  on a local abstract dict
        if isinstance(stmt, ast.Assign) and len(stmt.targets) == 1 and isinstance(stmt.targets[0], ast.Subscript) \
                and isinstance(stmt.targets[0].value, ast.Name) and isinstance(ctx.locs.get(stmt.targets[0].value.id), D) \
                and isinstance(stmt.targets[0].slice, ast.Constant) and isinstance(stmt.targets[0].slice.value, str):
            res = []
            for (s, v, o) in self.eval_expr(stmt.value, st, ctx):
                if o:
                    res.append((s, ctx.locs, o))
                    continue
                l2 = dict(ctx.locs)
                d = dict(l2[stmt.targets[0].value.id].d)
                d[stmt.targets[0].slice.value] = v
                l2[stmt.targets[0].value.id] = D(d)
                res.append((s, l2, None))
            return res
        return Interp._run_simple(self, stmt, st, ctx)

    # -- calls ---------------------------------------------------------------------------------------------------
    def _external_effects(self, call, st, ctx):
        st = Interp._external_effects(self, call, st, ctx)
        f = call.func
        if isinstance(f, ast.Attribute) and f.attr == "callLater" and ctx.cls.name == "Manager":
            # whatever the Manager hands to callLater is a timer continuation (a closure, a lambda or a bound method alike)
            info = self._ext_info.get((id(call), ctx.cls.name))
            if info:
                self.timer_cids.update(info[1])
        return st

    def mark(self, st, k, v='T'):
        st = st.cp()
        st[('e', k)] = v
        return st

    def do_call(self, call, st, ctx, argvals, kwvals):
        f = call.func
        cn = ctx.cls.name
        if isinstance(f, ast.Attribute):
            a = _self_attr(f)
            if a is not None:
                v = st.get(('a', cn, a))
                if isinstance(v, METH):
                    tgt = self.ALL[v.cls]
                    if v.name in tgt.inputs:
                        return self.fire(tgt, v.name, st, self.bind(tgt.inputs[v.name], argvals, kwvals))
                    return self.run_method(tgt, v.name, st, self.bind(tgt.methods[v.name], argvals, kwvals))
            recv = _self_attr(f.value)
            if recv is not None:
                # Manager -> mailbox: self._S.send("dilate-%d" % n, dict_to_bytes(fields))
                if f.attr == "send" and ctx.cls.field_ifaces.get(recv) == "ISend":
                    body = argvals[1] if len(argvals) > 1 else kwvals.get("plaintext")
                    t = body.d.get("type") if isinstance(body, D) else None
                    if not (isinstance(t, C) and isinstance(t.v, str)):
                        raise AnalysisError("%s.%s sends a dilation message whose type the analysis cannot name (%s:%d)" % (
                            cn, self.stack[-1] if self.stack else "?", ctx.cls.file, call.lineno))
                    cur = st.get(('e', 'out'), EMPTY)
                    st = st.cp()
                    st[('e', 'out')] = TUP(cur.items + (t,))
                    return [(st, 'U', None)]
                if cn == "Manager" and f.attr in ("use_connection", "stop_using_connection") and ctx.cls.wiring.get(recv) not in self.scope:
                    # the data-plane halves (Inbound / Outbound) are told about every connection and about its loss, in pairs
                    k = ('e', 'uc:' + recv)
                    if f.attr == "use_connection":
                        if st.get(k) == 'T':
                            self.add_viol("connection-not-released", "Manager hands a new connection to self.%s although it never told it to stop "
                                                                     "using the previous one" % recv, site="%s:%d" % (ctx.cls.file, call.lineno))
                        st = st.cp()
                        st[k] = 'T'
                    else:
                        st = st.cp()
                        st[k] = 'F'
                    return [(st, 'U', None)]
                if cn == "Manager" and recv == self.conn_attr and f.attr in ("disconnect", "loseConnection"):
                    # the Manager asks its connection in use to go away
                    st = self.mark(st, 'disc')
                    if any(x.startswith("TrafficTimer[") for x in self.stack):
                        st = self.mark(st, 'monitor_drop')
                    return [(st, 'U', None)]
                if cn == "Manager" and recv == self.timer_attr and f.attr == "cancel":
                    st = st.cp()
                    for k, v in list(st.items()):
                        if k[0] == 'k' and v == 'T' and k[1] in self.timer_cids:
                            st[k] = 'F'
                    return [(st, 'U', None)]
        if isinstance(f, ast.Name) and f.id in self.instantiable:
            return [(self._instantiate_args(f.id, st, argvals, kwvals), OBJV(f.id), None)]
        kind, tgt, meth = self.resolve(call, ctx)
        if kind == "method":
            if (tgt.name, meth) in self.opaque_methods:
                return [(st, 'U', None)]
            if tgt.name == "Connector" and meth in self.pend_disc:
                st = self.mark(st, 'pend_disc')
            if tgt.name == "Manager" and meth == "send_ping":
                if truth(st.get(('a', 'Manager', self.conn_attr), 'U')) == 'T':
                    st = self.mark(st, 'ping_out')
                # what runs when the pong comes back: the callback handed to send_ping (closure, lambda or bound method)
                fn_ps = [a.arg for a in tgt.methods["send_ping"].args.args][1:]
                cb = call.args[1] if len(call.args) > 1 else next((k.value for k in call.keywords if len(fn_ps) > 1 and k.arg == fn_ps[1]), None)
                if cb is not None:
                    from .astutil import callback_function
                    encl = getattr(call, "_parent", None)
                    while encl is not None and not isinstance(encl, (ast.FunctionDef, ast.AsyncFunctionDef)):
                        encl = getattr(encl, "_parent", None)
                    target = callback_function(cb, encl, dict(ctx.cls.methods))
                    if target is not None:
                        if isinstance(target, ast.FunctionDef) and target.name in ctx.cls.methods and ctx.cls.methods[target.name] is target:
                            cid, what = "%s.%s" % (cn, target.name), target.name
                        else:
                            cid, what = "%s.<pong callback@%d>" % (cn, target.lineno), target
                        self.continuations[cid] = (ctx.cls, what)
                        st = self.mark(st, 'pong_cb', C(cid))
        return Interp.do_call(self, call, st, ctx, argvals, kwvals)

    def run_method(self, cls, meth, st, locs, is_output=False):
        if is_output and cls.name == "Connector" and meth in self.pend_disc:
            st = self.mark(st, 'pend_disc')
        return Interp.run_method(self, cls, meth, st, locs, is_output)

    def _instantiate_args(self, cname, st, argvals, kwvals):
        c = self.ALL[cname]
        st = st.cp()
        if ('m', cname) in st:
            old = st[('m', cname)]
            if cname != "Connector":
                self.add_viol("second-instance", "a second %s is created" % cname)
            else:
                acc = c.rows.get((old, "accept"))
                if acc is not None and (acc.outputs or acc.enter != old):
                    self.add_viol("second-live-connector", "a new Connector is created while the previous one is still racing (state %s)" % old)
                # eventual inputs still queued for the retired instance reach it in its final state
                for k, v in list(st.items()):
                    if k[0] == 'k' and v == 'T' and k[1].startswith("Connector."):
                        what = self.continuations[k[1]][1]
                        if isinstance(what, str) and what in c.inputs:
                            row = c.rows.get((old, what))
                            if row is None:
                                self.add_viol("NoTransition", "Connector[%s].%s" % (old, what),
                                              site="%s:%d" % (c.file, c.inputs[what].lineno))
                            elif row.outputs or row.enter != old:
                                raise AnalysisError("a retired Connector in state %s still acts on %s" % (old, what))
                        st[k] = 'F'
                st[('e', 'new_connector')] = 'T'
                st[('e', 'lr')] = 'F'
        st[('m', cname)] = c.initial
        for n in c.node.body:
            if isinstance(n, ast.Assign) and len(n.targets) == 1 and isinstance(n.targets[0], ast.Name) and isinstance(n.value, ast.Constant) \
                    and (n.value.value is None or isinstance(n.value.value, bool)):
                st[('a', cname, n.targets[0].id)] = C(n.value.value)
        for mname in ("__init__", "__attrs_post_init__"):
            fn = c.methods.get(mname)
            if fn is None:
                continue
            for n in ast.walk(fn):
                if isinstance(n, ast.Assign) and len(n.targets) == 1:
                    t = n.targets[0]
                    if _self_attr(t) and isinstance(n.value, ast.Constant) and (n.value.value is None or isinstance(n.value.value, bool)):
                        st[('a', cname, t.attr)] = C(n.value.value)
        for fld, v in list(zip(c.attr_fields, argvals)) + [("_" + k if ("_" + k) in c.attr_fields else k, v) for k, v in kwvals.items()]:
            if isinstance(v, METH) or (isinstance(v, C) and (cname, fld) in KEEP_CONST):
                st[('a', cname, fld)] = v
        return st

    def side_state(self, which):
        st = S(self.ix)
        st = self._instantiate_args("Manager", st, [], {})
        st[('a', 'Manager', '_my_side')] = C(SIDES[which])
        for k in ('ver', 'stopreq', 'disc', 'pend_disc', 'ping_out', 'lr', 'new_connector', 'monitor_drop'):
            st[('e', k)] = 'F'
        st[('e', 'out')] = EMPTY
        st[('e', 'exp')] = ZERO
        st[('e', 'missed')] = ZERO
        if "got_dilation_key" in self.M.methods:
            # the session key precedes the peer's versions (Boss.got_key -> Dilator.got_key; decided by A3 / C18)
            params = [a.arg for a in self.M.methods["got_dilation_key"].args.args][1:]
            res = self.run_method(self.M, "got_dilation_key", st, {p_: 'T' for p_ in params})
            st = res[0][0]
        for need in (self.conn_attr, self.timer_attr, "_my_role"):
            if ('a', 'Manager', need) not in st:
                raise AnchorMissing("Manager.%s is no longer initialised to a constant in the constructor" % need)
        return st


# ----------------------------------------------------------------------------------------------------------------
class DEnv:
    def __init__(self, name, max_links=1, chan_bound=4, budget=400000, time_budget=600.0, budget_after_violation=30000):
        self.name, self.max_links, self.chan_bound = name, max_links, chan_bound
        self.budget, self.time_budget, self.budget_after_violation = budget, time_budget, budget_after_violation

    def describe(self):
        return {"name": self.name, "concurrent_links": self.max_links, "mailbox_channel_bound": self.chan_bound,
                "state_budget": self.budget,
                "events": ["versions", "rx(<dilation message>)", "stop", "listener_ready", "deferred:<eventual/timer continuation>",
                           "pong", "link.open", "link.leader-handshake", "link.follower-kcm", "link.lost", "link.drop"]}


DENVS = {
    "two-party": DEnv("two-party", max_links=1, chan_bound=4, budget=300000, time_budget=300.0),
    "two-party-2links": DEnv("two-party-2links", max_links=2, chan_bound=5, budget=1500000, time_budget=1500.0),
}

# link end states
NEG, CAND, SEL, DEAD = "neg", "cand", "sel", "dead"


class J:
    """joint state: the two sides' interpreter states + the medium between them"""
    __slots__ = ("s", "ch", "links", "_k")

    def __init__(self, sl, sf, ch, links):
        self.s = {"L": sl, "F": sf}
        self.ch = ch            # {"L": messages travelling L->F, "F": messages travelling F->L}
        self.links = links      # tuple of (leader end, follower end, kcm in flight)
        self._k = None

    def key(self):
        if self._k is None:
            self._k = (self.s["L"].key(), self.s["F"].key(), self.ch["L"], self.ch["F"], self.links)
        return self._k

    def with_side(self, x, sx):
        return J(sx if x == "L" else self.s["L"], sx if x == "F" else self.s["F"], dict(self.ch), self.links)


PEER = {"L": "F", "F": "L"}
END = {"L": 0, "F": 1}


class DilExplorer:
    def __init__(self, prog, env):
        self.prog, self.env = prog, env
        self.I = DilInterp(prog)
        I = self.I
        self.M, self.K, self.T = I.M, I.K, I.T
        M = self.M
        self.m_terminal = {s for s, d in M.states.items() if d["terminal"]}
        if not self.m_terminal:
            raise AnchorMissing("Manager has no terminal state")
        cm = M.rows_on("connection_made")
        if not cm:
            raise AnchorMissing("Manager has no row for connection_made")
        self.m_connected = {r.enter for r in cm}
        # Connector states in which the race is still open: add_candidate does something
        self.k_live = {s for s in self.K.states if (self.K.rows.get((s, "add_candidate")) is not None
                                                   and self.K.rows[(s, "add_candidate")].outputs)}
        if not self.k_live:
            raise AnchorMissing("Connector has no state in which add_candidate is considered")
        self.truncated = 0
        self.obl = collections.Counter()

    # -- helpers ---------------------------------------------------------------------------------------------------
    def g(self, s, k, d='F'):
        return s.get(('e', k), d)

    def kstate(self, s):
        return s.get(('m', 'Connector'))

    def tops(self, results):
        return [s for (s, v, o) in results]

    def viol(self, kind, detail, site=None):
        self.I.add_viol(kind, detail, site)

    def settle(self, j, x, sx, sel_from_cand=False, lost_sel=False):
        """bookkeeping after an event on side x produced interpreter state sx: messages sent move into the channel,
        link ends follow what the Connector / Manager did"""
        I = self.I
        if sx.get(('e', 'failed')) == 'T':
            return None
        links = [list(l) for l in j.links]
        e = END[x]
        sx = sx.cp()
        if sel_from_cand:
            had_sel = any(l[e] == SEL for l in links)
            for l in links:
                if l[e] == CAND:
                    l[e] = SEL
                    if x == "L":
                        l[2] = True
                    if had_sel:
                        self.viol("two-connections", "side %s selects a second connection while one is in use" % x)
                    break
        if self.g(sx, 'pend_disc') == 'T':
            for l in links:
                if l[e] in (NEG, CAND):
                    l[e] = DEAD
            sx[('e', 'pend_disc')] = 'F'
        if self.g(sx, 'new_connector') == 'T':
            for l in links:
                if l[e] in (NEG, CAND):
                    self.viol("pending-outlives-connector", "side %s: a pending connection of the previous generation is still open "
                                                            "when the next Connector is created" % x)
                    l[e] = DEAD
            sx[('e', 'new_connector')] = 'F'
        if not any(l[e] == SEL for l in links):
            sx[('e', 'disc')] = 'F'
            sx[('e', 'ping_out')] = 'F'
        out = sx.get(('e', 'out'), EMPTY)
        ch = dict(j.ch)
        if out.items:
            ch[x] = ch[x] + tuple(t.v for t in out.items)
            sx[('e', 'out')] = EMPTY
            if len(ch[x]) > self.env.chan_bound:
                self.truncated += 1
                return None
        links = tuple(sorted(tuple(l) for l in links if not (l[0] == DEAD and l[1] == DEAD)))
        # state predicates (C17): a stopped Manager leaves nothing behind
        ms = sx.get(('m', 'Manager'))
        if ms in self.m_terminal:
            ks = self.kstate(sx)
            if ks in self.k_live:
                self.viol("stopped-with-live-connector", "Manager[%s] with a Connector still racing (%s)" % (ms, ks))
            if any(k[0] == 'k' and v == 'T' and k[1] in I.timer_cids for k, v in sx.items()):
                self.viol("stopped-with-timer", "Manager[%s] with the ping timer still pending" % ms)
            if any(l[e] == SEL for l in links) and self.g(sx, 'disc') != 'T':
                self.viol("stopped-with-connection", "Manager[%s] while its connection is still in use and was not asked to close" % ms)
            if any(l[e] in (NEG, CAND) for l in links):
                self.viol("stopped-with-pending", "Manager[%s] with pending connections still open" % ms)
        nj = J(sx if x == "L" else j.s["L"], sx if x == "F" else j.s["F"], ch, links)
        return nj

    # -- the environment ----------------------------------------------------------------------------------------------
    def events(self, j):
        I = self.I
        M, K, T = self.M, self.K, self.T
        evs = []
        for x in ("L", "F"):
            sx = j.s[x]
            y = PEER[x]
            e = END[x]
            ms = sx[('m', 'Manager')]
            stopped = self.g(sx, 'stopreq') == 'T'
            if self.g(sx, 'ver') != 'T' and not stopped:
                def versions(j, x=x):
                    s = I.mark(j.s[x], 'ver')
                    return [self.settle(j, x, s2) for s2 in self.tops(I.run_method(
                        M, "got_wormhole_versions", s, {"their_wormhole_versions": D({"can-dilate": 'U'})}))]
                evs.append((x + ".versions", versions))
            inbox = j.ch[y]
            if inbox and self.g(sx, 'ver') == 'T' and not stopped:
                def rx(j, x=x, y=y):
                    t = j.ch[y][0]
                    j2 = J(j.s["L"], j.s["F"], dict(j.ch), j.links)
                    j2.ch[y] = j.ch[y][1:]
                    msg = D({"type": C(t), "side": C(SIDES[y]), "hints": 'U', "use-version": 'U'})
                    return [self.settle(j2, x, s2) for s2 in self.tops(I.run_method(
                        M, "received_dilation_message", j.s[x], {"plaintext": msg}))]
                evs.append(("%s.rx(%s)" % (x, inbox[0]), rx))
            if not stopped:
                def stop(j, x=x):
                    return [self.settle(j, x, s2) for s2 in self.tops(I.fire(M, "stop", I.mark(j.s[x], 'stopreq'), {}))]
                evs.append((x + ".stop", stop))
            ks = self.kstate(sx)
            if ks is not None and ks == K.initial and self.g(sx, 'lr') != 'T':
                def lr(j, x=x):
                    return [self.settle(j, x, s2) for s2 in self.tops(I.fire(K, "listener_ready", I.mark(j.s[x], 'lr'), {"hint_objs": 'U'}))]
                evs.append((x + ".listener_ready", lr))
            for k, v in sx.items():
                if k[0] == 'k' and v == 'T':
                    cid = k[1]
                    if cid in I.timer_cids:
                        def timer(j, x=x, cid=cid):
                            s = j.s[x].cp()
                            s[('e', 'exp')] = C(min(2, s[('e', 'exp')].v + 1))
                            if self.g(s, 'ping_out') == 'T':
                                s[('e', 'missed')] = C(min(2, s[('e', 'missed')].v + 1))
                            s[('e', 'monitor_drop')] = 'F'
                            out = []
                            for s2 in self.tops(I.run_continuation(cid, s)):
                                self.check_monitor(j, x, s2)
                                out.append(self.settle(j, x, s2))
                            return out
                        evs.append(("%s.timer" % x, timer))
                    elif cid == "Connector.accept":
                        def accept(j, x=x, cid=cid):
                            out = []
                            for s2 in self.tops(I.run_continuation(cid, j.s[x])):
                                selected = self.kstate(j.s[x]) in self.k_live and self.kstate(s2) not in self.k_live \
                                    and self.kstate(s2) is not None and s2.get(('e', 'failed')) != 'T' \
                                    and truth(s2.get(('a', 'Manager', I.conn_attr), 'U')) == 'T'
                                if selected:
                                    s2 = s2.cp()
                                    s2[('e', 'exp')] = ZERO
                                    s2[('e', 'missed')] = ZERO
                                out.append(self.settle(j, x, s2, sel_from_cand=selected))
                            return out
                        evs.append(("%s.deferred:%s" % (x, cid), accept))
                    else:
                        def cont(j, x=x, cid=cid):
                            return [self.settle(j, x, s2) for s2 in self.tops(I.run_continuation(cid, j.s[x]))]
                        evs.append(("%s.deferred:%s" % (x, cid), cont))
            # a pong: a ping is in flight on a connection that both sides have selected
            if self.g(sx, 'ping_out') == 'T' and ('m', 'TrafficTimer') in sx and any(l[e] == SEL and l[1 - e] == SEL for l in j.links):
                def pong(j, x=x):
                    s = j.s[x].cp()
                    s[('e', 'ping_out')] = 'F'
                    s[('e', 'exp')] = ZERO
                    s[('e', 'missed')] = ZERO
                    cb = s.get(('e', 'pong_cb'))
                    if isinstance(cb, C) and cb.v in I.continuations:
                        # the Manager's own on_pong callback; its argument is a round-trip time of at most one interval
                        what = I.continuations[cb.v][1]
                        fn_ = what if not isinstance(what, str) else (I.continuations[cb.v][0].methods.get(what))
                        args_ = [a.arg for a in fn_.args.args] if fn_ is not None else []
                        I.rtt_names = set(a for a in args_ if a != "self")
                        try:
                            return [self.settle(j, x, s2) for s2 in self.tops(I.run_continuation(cb.v, s))]
                        finally:
                            I.rtt_names = set()
                    return [self.settle(j, x, s2) for s2 in self.tops(I.fire(T, "traffic_seen", s, {}))]
                evs.append((x + ".pong", pong))
        # links
        kl, kf = self.kstate(j.s["L"]), self.kstate(j.s["F"])
        alive = [l for l in j.links if not (l[0] in (SEL, DEAD) and l[1] in (SEL, DEAD))]
        if kl in self.k_live and kf in self.k_live and len(alive) < self.env.max_links and (NEG, NEG, False) not in j.links:
            evs.append(("link.open", lambda j: [J(j.s["L"], j.s["F"], dict(j.ch), tuple(sorted(j.links + ((NEG, NEG, False),))))]))
        for i, l in enumerate(j.links):
            if l[0] == NEG and l[1] == NEG and kl in self.k_live:
                def hs(j, i=i):
                    links = [list(q) for q in j.links]
                    links[i][0] = CAND
                    j2 = J(j.s["L"], j.s["F"], dict(j.ch), tuple(sorted(tuple(q) for q in links)))
                    return [self.settle(j2, "L", s2) for s2 in self.tops(self.I.fire(self.K, "add_candidate", j.s["L"], {"c": 'T'}))]
                evs.append(("link%d.leader-handshake" % i, hs))
            if l[2] and l[1] == NEG:
                def kcm(j, i=i):
                    links = [list(q) for q in j.links]
                    links[i][1] = CAND
                    j2 = J(j.s["L"], j.s["F"], dict(j.ch), tuple(sorted(tuple(q) for q in links)))
                    return [self.settle(j2, "F", s2) for s2 in self.tops(self.I.fire(self.K, "add_candidate", j.s["F"], {"c": 'T'}))]
                evs.append(("link%d.follower-kcm" % i, kcm))
            for x in ("L", "F"):
                e = END[x]
                if l[e] == SEL:
                    def lost(j, i=i, x=x, e=e):
                        links = [list(q) for q in j.links]
                        links[i][e] = DEAD
                        j2 = J(j.s["L"], j.s["F"], dict(j.ch), tuple(sorted(tuple(q) for q in links)))
                        s = j.s[x].cp()
                        s[('e', 'disc')] = 'F'
                        s[('e', 'ping_out')] = 'F'
                        s[('e', 'exp')] = ZERO
                        s[('e', 'missed')] = ZERO
                        return [self.settle(j2, x, s2) for s2 in self.tops(self.I.run_method(self.M, "connector_connection_lost", s, {}))]
                    evs.append(("link%d.%s-lost" % (i, x), lost))
                elif l[e] == NEG and l[1 - e] in (SEL, DEAD):
                    def drop1(j, i=i, e=e):
                        links = [list(q) for q in j.links]
                        links[i][e] = DEAD
                        return [J(j.s["L"], j.s["F"], dict(j.ch), tuple(sorted(tuple(q) for q in links if not (q[0] == DEAD and q[1] == DEAD))))]
                    evs.append(("link%d.%s-pending-lost" % (i, x), drop1))
            if l[0] == NEG and l[1] == NEG:
                def drop(j, i=i):
                    links = list(j.links)
                    del links[i]
                    return [J(j.s["L"], j.s["F"], dict(j.ch), tuple(links))]
                evs.append(("link%d.drop" % i, drop))
        return evs

    def check_monitor(self, j, x, s2):
        """C16 in the product, evaluated right after a timer expiry on side x"""
        if s2.get(('e', 'failed')) == 'T':
            return
        e = END[x]
        in_use = any(l[e] == SEL for l in j.links)
        if not in_use or ('m', 'TrafficTimer') not in s2:
            return
        self.obl['C16:expiry'] += 1
        if s2[('e', 'exp')].v >= 2 and self.g(s2, 'disc') != 'T':
            self.viol("silent-connection-kept", "two timer expiries without a pong and the Leader has not asked its connection to close")
        if self.g(s2, 'monitor_drop') == 'T' and s2[('e', 'missed')].v == 0:
            self.viol("responsive-connection-dropped", "the traffic monitor drops the connection although no ping went unanswered over an expiry")

    # -- search ------------------------------------------------------------------------------------------------------
    def run(self):
        I = self.I
        t0 = time.time()
        sys.setrecursionlimit(max(sys.getrecursionlimit(), 20000))
        j0 = J(I.side_state("L"), I.side_state("F"), {"L": (), "F": ()}, ())
        seen = {j0.key(): (None, None)}
        states = {j0.key(): j0}
        edges = collections.defaultdict(set)
        q = collections.deque([j0])
        ntrans = 0
        exhausted = True
        events_used = collections.Counter()
        while q:
            if len(seen) > self.env.budget or (time.time() - t0) > self.env.time_budget or \
                    (I.viol and len(seen) > self.env.budget_after_violation):
                exhausted = False
                break
            j = q.popleft()
            for name, f in self.events(j):
                I.stack[:] = [name]
                before = len(I.viol)
                I.steps = 0
                try:
                    succ = f(j)
                except EventBudgetExceeded:
                    exhausted = False
                    succ = []
                if len(I.viol) > before:
                    for k in list(I.viol)[before:]:
                        I.viol[k].state_key = j.key()
                        I.viol[k].event = name
                events_used[name.split("(")[0].lstrip("LF.") if name[:2] in ("L.", "F.") else name.rstrip("0123456789")] += 1
                for j2 in succ:
                    if j2 is None:
                        continue
                    ntrans += 1
                    k = j2.key()
                    edges[j.key()].add(k)
                    if k not in seen:
                        seen[k] = (j.key(), name)
                        states[k] = j2
                        q.append(j2)
        r = Result()
        r.seen, r.states, r.edges = seen, states, edges
        r.nstates, r.ntrans, r.exhaustive = len(seen), ntrans, exhausted
        r.wall = time.time() - t0
        r.viol = I.viol
        r.events_used = events_used
        r.fired_rows = set(I.fired_rows)
        r.env = self.env
        r.truncated = self.truncated
        r.obl = dict(self.obl)
        r.rtt_assumption_used = I.rtt_assumption_used
        self._liveness(r)
        for v in r.viol.values():
            v.path = self.path(r, v.state_key) + [v.event] if v.state_key is not None else []
        return r

    def path(self, r, k):
        p = []
        while r.seen[k][0] is not None:
            p.append(r.seen[k][1])
            k = r.seen[k][0]
        return list(reversed(p))

    def _back(self, r, good):
        preds = collections.defaultdict(set)
        for a, bs in r.edges.items():
            for b in bs:
                preds[b].add(a)
        good = set(good)
        work = list(good)
        while work:
            x = work.pop()
            for p_ in preds[x]:
                if p_ not in good:
                    good.add(p_)
                    work.append(p_)
        return good

    def _liveness(self, r):
        g = self.g
        conv = set()
        for k, j in r.states.items():
            if j.s["L"][('m', 'Manager')] in self.m_connected and j.s["F"][('m', 'Manager')] in self.m_connected \
                    and any(l[0] == SEL and l[1] == SEL for l in j.links):
                conv.add(k)
        r.converged_states = len(conv)
        can = self._back(r, conv)
        running = [k for k, j in r.states.items() if g(j.s["L"], 'stopreq') != 'T' and g(j.s["F"], 'stopreq') != 'T']
        stuck = [k for k in running if k not in can] if r.exhaustive else []
        r.running_states = len(running)
        r.n_stuck = len(stuck)
        r.stuck = [(self.path(r, k), {x: r.states[k].s[x].machines() for x in ("L", "F")}, r.states[k].ch, r.states[k].links)
                   for k in sorted(stuck, key=lambda k: len(self.path(r, k)))[:3]]
        # C17: after stop() the Manager of that side can always reach its terminal state
        r.stop_stuck = {}
        r.stop_states = {}
        for x in ("L", "F"):
            done = {k for k, j in r.states.items() if j.s[x][('m', 'Manager')] in self.m_terminal}
            can = self._back(r, done)
            asked = [k for k, j in r.states.items() if g(j.s[x], 'stopreq') == 'T']
            bad = [k for k in asked if k not in can] if r.exhaustive else []
            r.stop_states[x] = len(asked)
            r.stop_stuck[x] = [(self.path(r, k), r.states[k].s[x].machines()) for k in sorted(bad, key=lambda k: len(self.path(r, k)))[:3]]


class DSummary:
    def __init__(self, r):
        self.env = r.env.describe()
        self.envname = r.env.name
        self.nstates, self.ntrans, self.exhaustive, self.wall = r.nstates, r.ntrans, r.exhaustive, r.wall
        self.viol = [dict(kind=v.kind, detail=v.detail, stack=list(v.stack), site=v.site, path=list(getattr(v, "path", [])))
                     for v in r.viol.values()]
        self.converged_states, self.running_states, self.n_stuck, self.stuck = r.converged_states, r.running_states, r.n_stuck, \
            [(p, str(m), str(ch), str(li)) for (p, m, ch, li) in r.stuck]
        self.stop_states = r.stop_states
        self.stop_stuck = {x: [(p, str(m)) for (p, m) in v] for x, v in r.stop_stuck.items()}
        self.fired_rows = sorted(r.fired_rows)
        self.events_used = dict(r.events_used)
        self.truncated = r.truncated
        self.obl = r.obl
        self.rtt_assumption_used = r.rtt_assumption_used


def explore(tree, envname="two-party", prog=None):
    from .automat_x import Program
    prog = prog or Program(tree)
    return DilExplorer(prog, DENVS[envname]).run()


if __name__ == "__main__":   # pragma: no cover - development aid
    from .srcmodel import SourceTree
    t = SourceTree.load()
    r = explore(t, sys.argv[1] if len(sys.argv) > 1 else "two-party")
    print("states", r.nstates, "trans", r.ntrans, "exhaustive", r.exhaustive, "wall %.1f" % r.wall, "truncated", r.truncated)
    print("converged", r.converged_states, "running", r.running_states, "stuck", r.n_stuck)
    for v in r.viol.values():
        print("VIOL", v.kind, v.detail, v.site, v.path, v.stack[-4:])
    for s in r.stuck:
        print("STUCK", s)
    print("stop", r.stop_states, r.stop_stuck)
    print(sorted(r.events_used.items()))
    print(len(r.fired_rows), "rows fired")
