"""Engine E: sibling agreement helpers — role tables, width/format extraction, small constant evaluation."""
import ast

from .srcmodel import AnalysisError
from .astutil import dotted, const, NOCONST, is_self_attr, walk_shallow


def role_table(fn, role_test, file="?"):
    """Evaluate a function that returns one expression per role:
           if <role test>: return A   else: return B     /  guard-clause and inverted spellings alike
       -> {True: A, False: B} (expressions).  role_test(node) -> True/False/None tells whether `node` is the role
       predicate (True), its negation (False) or something else (None)."""
    from .cfg import build
    g = build(fn, split=True)
    out = {}
    for role in (True, False):
        unknown = []

        def oracle(test, role=role):
            pol = role_test(test)
            if pol is None:
                unknown.append(test)
                return None
            return role if pol else (not role)
        paths = g.paths_under(oracle)
        if unknown:
            raise AnalysisError("%s:%d: %s branches on something other than the role" % (file, fn.lineno, fn.name))
        rets = []
        for nodes, end in paths:
            if end != 'exit':
                raise AnalysisError("%s:%d: role table %s raises for a role" % (file, fn.lineno, fn.name))
            r = [g.stmt[n] for n in nodes if isinstance(g.stmt[n], ast.Return)]
            if len(r) != 1 or r[0].value is None:
                raise AnalysisError("%s:%d: branch of role table %s is not a single return" % (file, fn.lineno, fn.name))
            rets.append(r[0].value)
        if len(rets) != 1:
            raise AnalysisError("%s:%d: %s is not a role table (%d paths for one role)" % (file, fn.lineno, fn.name, len(rets)))
        out[role] = rets[0]
    if ast.dump(out[True]) == ast.dump(out[False]) and out[True] is out[False]:
        raise AnalysisError("%s:%d: %s is not a role table (no branch on the role)" % (file, fn.lineno, fn.name))
    return out


def is_sender_test(node):
    if is_self_attr(node, "is_sender"):
        return True
    if isinstance(node, ast.UnaryOp) and isinstance(node.op, ast.Not) and is_self_attr(node.operand, "is_sender"):
        return False
    return None


def local_int_env(fn):
    """names a function binds exactly once to a constant integer expression, and `assert X == <int>` facts:
    environment for eval_int"""
    env = {}
    counts = {}
    for n in ast.walk(fn):
        if isinstance(n, ast.Name) and isinstance(n.ctx, ast.Store):
            counts[n.id] = counts.get(n.id, 0) + 1
    for _ in range(3):
        for n in ast.walk(fn):
            if isinstance(n, ast.Assign) and len(n.targets) == 1 and isinstance(n.targets[0], ast.Name) and counts.get(n.targets[0].id) == 1:
                v = eval_int(n.value, env)
                if v is not None:
                    env[n.targets[0].id] = v
            elif isinstance(n, ast.Assert) and isinstance(n.test, ast.Compare) and len(n.test.ops) == 1 and isinstance(n.test.ops[0], ast.Eq):
                d = dotted(n.test.left)
                v = eval_int(n.test.comparators[0], env)
                if d and v is not None:
                    env[d] = v
    return env


def hex_format_width(node, env=None):
    """bytes produced by unhexlify(f"{X:0Nx}") / unhexlify("%0Nx" % X): returns (N // 2, X) or None"""
    if isinstance(node, ast.Call) and isinstance(node.func, ast.Attribute) and node.func.attr == "to_bytes" and node.args:
        # X.to_bytes(N, "big")
        order = node.args[1] if len(node.args) > 1 else next((k.value for k in node.keywords if k.arg == "byteorder"), None)
        n = eval_int(node.args[0], env)
        if n is not None and order is not None and const(order) == "big":
            return n, node.func.value
    if isinstance(node, ast.Call) and ((dotted(node.func) or "").split(".")[-1] == "unhexlify" or dotted(node.func) == "bytes.fromhex") \
            and len(node.args) == 1:
        a = node.args[0]
        if isinstance(a, ast.Call) and isinstance(a.func, ast.Attribute) and a.func.attr == "format" and len(a.args) == 1 \
                and isinstance(const(a.func.value), str):
            s = const(a.func.value)
            if s.startswith("{:0") and s.endswith("x}") and s[3:-2].isdigit() and int(s[3:-2]) % 2 == 0:
                return int(s[3:-2]) // 2, a.args[0]
        if isinstance(a, ast.JoinedStr) and len(a.values) == 1 and isinstance(a.values[0], ast.FormattedValue):
            fv = a.values[0]
            spec = fv.format_spec
            if isinstance(spec, ast.JoinedStr) and len(spec.values) == 1 and isinstance(spec.values[0], ast.Constant):
                s = spec.values[0].value
                if s.startswith("0") and s.endswith("x") and s[1:-1].isdigit() and int(s[1:-1]) % 2 == 0:
                    return int(s[1:-1]) // 2, fv.value
        if isinstance(a, ast.BinOp) and isinstance(a.op, ast.Mod) and isinstance(const(a.left), str):
            s = const(a.left)
            if s.startswith("%0") and s.endswith("x") and s[2:-1].isdigit() and int(s[2:-1]) % 2 == 0:
                r = a.right
                if isinstance(r, ast.Tuple) and len(r.elts) == 1:
                    r = r.elts[0]
                return int(s[2:-1]) // 2, r
            if s == "%0*x" and isinstance(a.right, ast.Tuple) and len(a.right.elts) == 2:
                # width given as an argument: "%0*x" % (W, X)
                w = eval_int(a.right.elts[0], env)
                if w is not None and w % 2 == 0:
                    return w // 2, a.right.elts[1]
    return None


def hex_int_of(node):
    """big-endian unsigned parse of the bytes X:  int(hexlify(X), 16), int(X.hex(), 16), int.from_bytes(X, "big")  -> X else None"""
    if isinstance(node, ast.Call) and dotted(node.func) == "int" and len(node.args) == 2 and const(node.args[1]) == 16:
        h = node.args[0]
        if isinstance(h, ast.Call) and (dotted(h.func) or "").split(".")[-1] == "hexlify" and len(h.args) == 1:
            return h.args[0]
        if isinstance(h, ast.Call) and isinstance(h.func, ast.Attribute) and h.func.attr == "hex" and not h.args:
            return h.func.value
    if isinstance(node, ast.Call) and dotted(node.func) == "int.from_bytes" and node.args:
        order = node.args[1] if len(node.args) > 1 else next((k.value for k in node.keywords if k.arg == "byteorder"), None)
        signed = next((k.value for k in node.keywords if k.arg == "signed"), None)
        if order is not None and const(order) == "big" and (signed is None or const(signed) is False):
            return node.args[0]
    return None


def slice_bounds(node):
    """X[a:b] -> (X, a, b) with a/b expression nodes or None"""
    if isinstance(node, ast.Subscript) and isinstance(node.slice, ast.Slice) and node.slice.step is None:
        return node.value, node.slice.lower, node.slice.upper
    return None


def eval_int(node, env=None):
    """constant-fold an integer expression over + - * ** // and names in env; None if not constant"""
    env = env or {}
    if isinstance(node, ast.Constant) and isinstance(node.value, int) and not isinstance(node.value, bool):
        return node.value
    if isinstance(node, ast.Name) and node.id in env:
        return env[node.id]
    d = dotted(node) if isinstance(node, ast.Attribute) else None
    if d and d in env:
        return env[d]
    if isinstance(node, ast.BinOp):
        l, r = eval_int(node.left, env), eval_int(node.right, env)
        if l is None or r is None:
            return None
        try:
            if isinstance(node.op, ast.Add):
                return l + r
            if isinstance(node.op, ast.Sub):
                return l - r
            if isinstance(node.op, ast.Mult):
                return l * r
            if isinstance(node.op, ast.Pow):
                return l ** r
            if isinstance(node.op, ast.FloorDiv):
                return l // r
            if isinstance(node.op, ast.LShift):
                return l << r
        except Exception:
            return None
    if isinstance(node, ast.UnaryOp) and isinstance(node.op, ast.USub):
        v = eval_int(node.operand, env)
        return -v if v is not None else None
    return None
