"""Normalisation against the reference snapshot, part 2: undo "extract helper" and "name a constant".

After sa/canon.py has undone consistent renames, a function (method of an existing class, or module-level
function) that the reference snapshot does not know is a *new helper*.  When such a helper is a plain function
(no generator, no decorator other than staticmethod, fixed parameters, not recursive) its call sites
`self.h(...)` / `h(...)` inside functions are replaced by its body (parameters bound, `return` turned into the
caller's continuation), which is a semantics-preserving program transformation: the rules then see the statements
where they were before the extraction - and see them just the same if the extracted code was altered.  A helper that
is no longer referenced afterwards is dropped from its class; one that is still referenced (passed as a callback)
stays.  Likewise a *new* module- or class-level name bound once to a constant expression is replaced by that
expression at its uses (`PHASE = "version"` ... `add_message(PHASE, x)`), and `NEW = re.compile(P)` /
`NEW.search(x)` by `re.search(P, x)`.  Whatever cannot be transformed under the stated conditions is left as it is.
"""
import ast
from .astutil import clone
import copy

from .canon import _units, _is_doc

MAX_ROUNDS = 4


def _has_yield(fn):
    for n in ast.walk(fn):
        if isinstance(n, (ast.Yield, ast.YieldFrom, ast.Await)):
            return True
    return False


def _own_nodes(fn):
    """nodes of fn not inside nested function/lambda/class definitions"""
    out = []
    work = list(fn.body)
    while work:
        n = work.pop()
        out.append(n)
        for ch in ast.iter_child_nodes(n):
            if isinstance(ch, (ast.FunctionDef, ast.AsyncFunctionDef, ast.ClassDef, ast.Lambda)):
                out.append(ch)
                continue
            work.append(ch)
    return out


def _returns(fn):
    return [n for n in _own_nodes(fn) if isinstance(n, ast.Return)]


def _is_static(fn):
    return any(isinstance(d, ast.Name) and d.id in ("staticmethod",) for d in fn.decorator_list)


def _eligible(fn):
    if isinstance(fn, ast.AsyncFunctionDef) or _has_yield(fn):
        return False
    for d in fn.decorator_list:
        if not (isinstance(d, ast.Name) and d.id == "staticmethod"):
            return False
    a = fn.args
    if a.kwarg or a.kwonlyargs or a.posonlyargs:
        return False
    if a.vararg:
        # `*parts` is accepted when it is only ever forwarded as `*parts`
        v = a.vararg.arg
        for n in ast.walk(fn):
            if isinstance(n, ast.Name) and n.id == v and not isinstance(getattr(n, "_parent", None), ast.Starred):
                return False
            if isinstance(n, ast.Starred) and isinstance(n.value, ast.Name) and n.value.id == v \
                    and not isinstance(getattr(n, "_parent", None), ast.Call):
                return False
    for n in ast.walk(fn):
        if isinstance(n, (ast.Global, ast.Nonlocal)):
            return False
    return True


def _simple(e):
    """an expression without side effects whose value cannot be changed by the helper body (no calls, no subscripts)"""
    if isinstance(e, ast.Constant):
        return True
    if isinstance(e, ast.Name):
        return True
    if isinstance(e, ast.Attribute):
        return _simple(e.value)
    if isinstance(e, ast.UnaryOp):
        return _simple(e.operand)
    return False


def _stored_names(nodes):
    s = set()
    for top in nodes:
        for n in ast.walk(top):
            if isinstance(n, ast.Name) and isinstance(n.ctx, (ast.Store, ast.Del)):
                s.add(n.id)
            elif isinstance(n, ast.arg):
                s.add(n.arg)
            elif isinstance(n, ast.ExceptHandler) and n.name:
                s.add(n.name)
            elif isinstance(n, (ast.FunctionDef, ast.AsyncFunctionDef)):
                s.add(n.name)
    return s


def _all_names(nodes):
    s = set()
    for top in nodes:
        for n in ast.walk(top):
            if isinstance(n, ast.Name):
                s.add(n.id)
            elif isinstance(n, ast.arg):
                s.add(n.arg)
    return s


class _Subst(ast.NodeTransformer):
    def __init__(self, m):
        self.m = m

    def visit_Call(self, node):
        self.generic_visit(node)
        new_args = []
        for a in node.args:
            if isinstance(a, ast.Starred) and isinstance(a.value, ast.Name) and ("*" + a.value.id) in self.m:
                new_args.extend(clone(x) for x in self.m["*" + a.value.id])
            else:
                new_args.append(a)
        node.args = new_args
        return node

    def visit_Name(self, node):
        if node.id in self.m and isinstance(node.ctx, ast.Load):
            return clone(self.m[node.id])
        return node


def _rename_locals(nodes, m):
    for top in nodes:
        for n in ast.walk(top):
            if isinstance(n, ast.Name) and n.id in m:
                n.id = m[n.id]
            elif isinstance(n, ast.arg) and n.arg in m:
                n.arg = m[n.arg]
            elif isinstance(n, ast.ExceptHandler) and n.name in m:
                n.name = m[n.name]


def _bind_args(fn, call, is_method):
    """param name -> argument expression, or None if the call does not fit"""
    params = [a.arg for a in fn.args.args]
    if is_method and not _is_static(fn):
        params = params[1:]
    defaults = fn.args.defaults
    dmap = {}
    for p, d in zip(params[len(params) - len(defaults):], defaults):
        dmap[p] = d
    if any(isinstance(a, ast.Starred) for a in call.args) or any(k.arg is None for k in call.keywords):
        return None
    star = None
    if fn.args.vararg:
        star = (fn.args.vararg.arg, list(call.args[len(params):]))
    elif len(call.args) > len(params):
        return None
    bound = {}
    for p, a in zip(params, call.args):
        bound[p] = a
    for k in call.keywords:
        if k.arg not in params or k.arg in bound:
            return None
        bound[k.arg] = k.value
    for p in params:
        if p not in bound:
            if p not in dmap:
                return None
            bound[p] = dmap[p]
    out = [(p, bound[p]) for p in params]
    if star is not None:
        n_uses = sum(1 for n in ast.walk(fn) if isinstance(n, ast.Starred) and isinstance(n.value, ast.Name) and n.value.id == star[0])
        if not all(_simple(a) for a in star[1]) and n_uses != 1:
            return None
        out.append(("*" + star[0], star[1]))
    return out


def _has_call(e):
    return any(isinstance(n, (ast.Call, ast.Yield, ast.Await)) for n in ast.walk(e))


def _eliminate_returns(stmts, cont):
    """Rewrite a statement list in which `return` occurs only as the last statement of the list or of (nested)
    if-branches, so that no return is left: cont(E) gives the statements replacing `return E`.
    Returns the new list or None if the shape is not supported."""
    out = []
    for i, st in enumerate(stmts):
        if isinstance(st, ast.Return):
            out.extend(cont(st.value))
            return out          # anything after a return is dead
        if isinstance(st, ast.If) and (_contains_return([st])):
            rest = stmts[i + 1:]
            body_ret = _ends_in_return(st.body)
            else_ret = _ends_in_return(st.orelse) if st.orelse else False
            nb = _eliminate_returns(st.body + ([] if body_ret else clone(rest)), cont) if True else None
            ne = _eliminate_returns((st.orelse or []) + ([] if else_ret else clone(rest)), cont)
            if nb is None or ne is None:
                return None
            new_if = ast.If(test=st.test, body=nb or [ast.Pass()], orelse=ne)
            ast.copy_location(new_if, st)
            out.append(new_if)
            return out
        if isinstance(st, (ast.Try, ast.With)) and _contains_return([st]):
            # `try: return f() except E: return None` as the last statement (or with every branch returning)
            rest = stmts[i + 1:]
            if isinstance(st, ast.With):
                branches = [st.body]
            else:
                if _contains_return(st.finalbody):
                    return None
                branches = [st.body + st.orelse] + [h.body for h in st.handlers]
            if rest and not all(_ends_in_return(b) for b in branches):
                return None
            news = []
            for b in branches:
                nb = _eliminate_returns(b, cont)
                if nb is None:
                    return None
                news.append(nb or [ast.Pass()])
            if isinstance(st, ast.With):
                new = ast.With(items=st.items, body=news[0])
            else:
                new = ast.Try(body=news[0], handlers=[ast.ExceptHandler(type=h.type, name=h.name, body=nb2)
                                                       for h, nb2 in zip(st.handlers, news[1:])],
                              orelse=[], finalbody=st.finalbody)
                for h2, h in zip(new.handlers, st.handlers):
                    ast.copy_location(h2, h)
            ast.copy_location(new, st)
            out.append(new)
            return out
        if _contains_return([st]):
            return None         # return inside a loop: not handled
        out.append(st)
    return out


def _contains_return(stmts):
    for st in stmts:
        work = [st]
        while work:
            n = work.pop()
            if isinstance(n, ast.Return):
                return True
            for ch in ast.iter_child_nodes(n):
                if not isinstance(ch, (ast.FunctionDef, ast.AsyncFunctionDef, ast.ClassDef, ast.Lambda)):
                    work.append(ch)
    return False


def _ends_in_return(stmts):
    if not stmts:
        return False
    last = stmts[-1]
    if isinstance(last, (ast.Return, ast.Raise)):
        return True
    if isinstance(last, ast.If) and last.orelse:
        return _ends_in_return(last.body) and _ends_in_return(last.orelse)
    if isinstance(last, ast.With):
        return _ends_in_return(last.body)
    if isinstance(last, ast.Try) and not last.finalbody:
        return _ends_in_return(last.body + last.orelse) and all(_ends_in_return(h.body) for h in last.handlers)
    return False


def _expansion(fn, call, is_method, caller, context, target=None):
    """statements replacing the statement that holds `call`, or None"""
    binding = _bind_args(fn, call, is_method)
    if binding is None:
        return None
    body = clone(fn.body)
    if body and _is_doc(body[0]):
        body = body[1:]
    if not body:
        body = [ast.Pass()]
    # names of the helper that collide with names of the caller are renamed
    helper_locals = _stored_names(body) | {p for p, _ in binding if not p.startswith("*")}
    caller_names = _all_names([caller]) - {"self"}
    if context == "assign" and isinstance(target, ast.Name) and not any(
            isinstance(n, ast.Name) and n.id == target.id for a in list(call.args) + [k.value for k in call.keywords]
            for n in ast.walk(a)):
        caller_names = caller_names - {target.id}    # the helper may use the target's own name as its local
    ren = {}
    for n in sorted(helper_locals):
        if n in caller_names:
            k = n + "__h"
            while k in caller_names or k in helper_locals:
                k += "h"
            ren[n] = k
    if ren:
        _rename_locals(body, ren)
    assigned = _stored_names(body)
    pre = []
    sub = {}
    for p, a in binding:
        if p.startswith("*"):
            sub[p] = a
            continue
        p2 = ren.get(p, p)
        if _simple(a) and p2 not in assigned and not any(isinstance(n, ast.Name) and n.id in assigned for n in ast.walk(a)):
            sub[p2] = a
        else:
            asg = ast.Assign(targets=[ast.Name(id=p2, ctx=ast.Store())], value=clone(a))
            ast.copy_location(asg, call)
            pre.append(asg)
    if sub:
        body = [_Subst(sub).visit(st) for st in body]
    if context == "return":
        if not _ends_in_return(body):
            r = ast.Return(value=None)
            ast.copy_location(r, call)
            body.append(r)
        res = pre + body
    else:
        def cont(e):
            if context == "assign":
                v = e if e is not None else ast.Constant(value=None)
                if isinstance(v, ast.Name) and isinstance(target, ast.Name) and v.id == target.id:
                    return []
                a = ast.Assign(targets=[clone(target)], value=v)
                ast.copy_location(a, call)
                return [a]
            if e is not None and _has_call(e):
                x = ast.Expr(value=e)
                ast.copy_location(x, call)
                return [x]
            return []
        nb = _eliminate_returns(body, cont)
        if nb is None:
            return None
        if context == "assign" and not _ends_in_return(body):
            # falling off the end returns None: only accepted when every path already assigned
            return None
        res = pre + (nb or [ast.Pass()])
    for st in res:
        ast.fix_missing_locations(st)
    return res


def _expr_helper(fn):
    """the expression E of a helper whose body is `return E` (after an optional docstring)"""
    body = fn.body[1:] if fn.body and _is_doc(fn.body[0]) and len(fn.body) > 1 else fn.body
    if len(body) == 1 and isinstance(body[0], ast.Return) and body[0].value is not None:
        return body[0].value
    # straight-line `a = e1; b = e2(a); return E(b)` with every local used exactly once: fold into one expression
    if body and isinstance(body[-1], ast.Return) and body[-1].value is not None and all(
            isinstance(st, ast.Assign) and len(st.targets) == 1 and isinstance(st.targets[0], ast.Name) for st in body[:-1]):
        names = [st.targets[0].id for st in body[:-1]]
        params = {a.arg for a in fn.args.args}
        if len(set(names)) == len(names) and not (set(names) & params):
            e = clone(body[-1].value)
            for st in reversed(body[:-1]):
                n = st.targets[0].id
                later = [e] + [x.value for x in body[body.index(st) + 1:-1]]
                uses = sum(_count_uses(x, n) for x in later)
                if _count_uses(e, n) != 1 or uses != 1:
                    return None
                e = _Subst({n: st.value}).visit(e)
            return e
    return None


def _stmt_lists(fn):
    """every statement list (body, orelse, finalbody, handler bodies) inside fn, excluding nested defs"""
    out = []
    work = [fn]
    while work:
        n = work.pop()
        for field in ("body", "orelse", "finalbody"):
            v = getattr(n, field, None)
            if isinstance(v, list) and v and isinstance(v[0], ast.stmt):
                out.append(v)
                for st in v:
                    if not isinstance(st, (ast.FunctionDef, ast.AsyncFunctionDef, ast.ClassDef)) or st is fn:
                        work.append(st)
        if isinstance(n, ast.Try):
            for h in n.handlers:
                work.append(h)
        if isinstance(n, ast.Match) if hasattr(ast, "Match") else False:
            for c in n.cases:
                work.append(c)
    return out


def _call_matches(call, hname, is_method, clsname):
    f = call.func
    if is_method:
        return isinstance(f, ast.Attribute) and f.attr == hname and isinstance(f.value, ast.Name) \
            and f.value.id in ("self", "cls", clsname)
    return isinstance(f, ast.Name) and f.id == hname


def _inline_into(caller, helper, hname, is_method, clsname):
    """inline the calls of `helper` found in `caller`; returns number of call sites replaced"""
    n_done = 0
    expr_e = _expr_helper(helper)
    changed = True
    guard = 0
    while changed and guard < 50:
        changed = False
        guard += 1
        for lst in _stmt_lists(caller):
            for i, st in enumerate(lst):
                if isinstance(st, (ast.FunctionDef, ast.AsyncFunctionDef, ast.ClassDef)):
                    continue
                new = None
                if isinstance(st, ast.Expr) and isinstance(st.value, ast.Call) and _call_matches(st.value, hname, is_method, clsname):
                    new = _expansion(helper, st.value, is_method, caller, "expr")
                elif isinstance(st, ast.Assign) and len(st.targets) == 1 and isinstance(st.value, ast.Call) \
                        and _call_matches(st.value, hname, is_method, clsname) and (
                            isinstance(st.targets[0], (ast.Name, ast.Attribute))
                            or (isinstance(st.targets[0], ast.Tuple) and all(isinstance(e, ast.Name) for e in st.targets[0].elts))):
                    new = _expansion(helper, st.value, is_method, caller, "assign", st.targets[0])
                elif isinstance(st, ast.Return) and isinstance(st.value, ast.Call) and _call_matches(st.value, hname, is_method, clsname):
                    new = _expansion(helper, st.value, is_method, caller, "return")
                if new is not None:
                    lst[i:i + 1] = new
                    n_done += 1
                    changed = True
                    break
            if changed:
                break
    # a call that is the first thing a statement evaluates (`return Ctor(h(x))`, `y = f(h(x))`): hoist into a temporary
    if expr_e is None:
        for _ in range(10):
            hoisted = False
            for lst in _stmt_lists(caller):
                for i, st in enumerate(lst):
                    if not isinstance(st, (ast.Return, ast.Assign, ast.Expr)) or st.value is None:
                        continue
                    inner = st.value
                    chain_ok = True
                    target = None
                    while isinstance(inner, ast.Call):
                        if _call_matches(inner, hname, is_method, clsname):
                            target = inner
                            break
                        if not (_simple(inner.func) and inner.args and not isinstance(inner.args[0], ast.Starred)):
                            chain_ok = False
                            break
                        inner = inner.args[0]
                    if target is None or not chain_ok or target is st.value:
                        continue
                    tmp = "_h_" + hname.strip("_")
                    k = 0
                    while any(isinstance(n, ast.Name) and n.id == tmp for n in ast.walk(caller)):
                        k += 1
                        tmp = "_h%d_%s" % (k, hname.strip("_"))
                    asg = ast.Assign(targets=[ast.Name(id=tmp, ctx=ast.Store())], value=target)
                    ast.copy_location(asg, st)
                    # replace the call by the temporary
                    par = st.value
                    while par.args[0] is not target:
                        par = par.args[0]
                    par.args[0] = ast.copy_location(ast.Name(id=tmp, ctx=ast.Load()), target)
                    ast.fix_missing_locations(asg)
                    lst.insert(i, asg)
                    new = _expansion(helper, target, is_method, caller, "assign", asg.targets[0])
                    if new is not None:
                        lst[i:i + 1] = new
                        n_done += 1
                    else:
                        # undo
                        par.args[0] = target
                        del lst[i]
                        continue
                    hoisted = True
                    break
                if hoisted:
                    break
            if not hoisted:
                break
    # calls nested in expressions: only expression helpers (`return E`)
    if expr_e is not None:
        class T(ast.NodeTransformer):
            def __init__(self):
                self.n = 0

            def visit_FunctionDef(self, node):
                if node is caller:
                    self.generic_visit(node)
                return node

            def visit_Call(self, node):
                self.generic_visit(node)
                if _call_matches(node, hname, is_method, clsname):
                    binding = _bind_args(helper, node, is_method)
                    if binding is not None and all(p.startswith("*") or _simple(a) or _count_uses(expr_e, p) <= 1 for p, a in binding):
                        e = clone(expr_e)
                        e = _Subst({p: a for p, a in binding}).visit(e)
                        ast.copy_location(e, node)
                        ast.fix_missing_locations(e)
                        self.n += 1
                        return e
                return node
        t = T()
        t.visit(caller)
        n_done += t.n
    return n_done


def _count_uses(e, name):
    return sum(1 for n in ast.walk(e) if isinstance(n, ast.Name) and n.id == name)


def _references(nodes, hname, is_method):
    c = 0
    for top in nodes:
        for n in ast.walk(top):
            if is_method and isinstance(n, ast.Attribute) and n.attr == hname:
                c += 1
            elif isinstance(n, ast.Name) and n.id == hname and isinstance(n.ctx, ast.Load):
                c += 1
    return c


def _calls_self(fn, hname, is_method, clsname):
    return any(isinstance(n, ast.Call) and _call_matches(n, hname, is_method, clsname) for n in ast.walk(fn))


def inline_new_helpers(asts, ref):
    """returns list of dicts describing what was inlined"""
    done = []
    if not ref:
        return done
    for _round in range(MAX_ROUNDS):
        progress = False
        for rel, mod in asts.items():
            runits = ref.get(rel)
            if runits is None:
                continue
            rkeys = {tuple(k.split("|")) for k in runits}
            units = _units(mod)
            for k, fn in list(units.items()):
                if k[0] not in ("meth", "fn") or k in rkeys:
                    continue
                if k[0] == "meth" and ("cls", k[1]) not in rkeys:
                    continue            # a new class: nothing to compare with
                if not _eligible(fn):
                    continue
                is_method = k[0] == "meth"
                clsname = k[1] if is_method else None
                hname = k[-1]
                # a reference function that merely moved here from another module / class is not a new helper
                from .canon import sig_of as _sig
                shp = _sig(fn).shape
                if any(kk.split("|")[-1] == hname and vv[0] == shp for r2, us in ref.items() for kk, vv in us.items()):
                    continue
                if _calls_self(fn, hname, is_method, clsname):
                    continue
                # helpers that call other new helpers are handled once those are gone
                others_new = [q for q in units if q[0] == k[0] and q[:-1] == k[:-1] and q not in rkeys and q != k]
                if any(_calls_self(fn, q[-1], is_method, clsname) and _eligible(units[q]) for q in others_new):
                    continue
                if is_method:
                    cnode = next(c for c in mod.body if isinstance(c, ast.ClassDef) and c.name == clsname)
                    callers = [m for m in cnode.body if isinstance(m, (ast.FunctionDef, ast.AsyncFunctionDef)) and m is not fn]
                else:
                    callers = [f for f in ast.walk(mod) if isinstance(f, (ast.FunctionDef, ast.AsyncFunctionDef)) and f is not fn
                               and getattr(f, "_parent", None) is not None and not _inside(f, fn)]
                n = 0
                for c in callers:
                    if _calls_self(c, hname, is_method, clsname):
                        n += _inline_into(c, fn, hname, is_method, clsname)
                if n:
                    progress = True
                    # drop the helper when nothing refers to it any more
                    scope_nodes = [mod] if not is_method else [mod]
                    others = sum(_references([m2], hname, is_method) for r2, m2 in asts.items() if r2 != rel)
                    left = _references([x for x in scope_nodes], hname, is_method) - _references([fn], hname, is_method)
                    removed = False
                    if left == 0 and others == 0:
                        owner = cnode.body if is_method else mod.body
                        if fn in owner:
                            owner.remove(fn)
                            removed = True
                    done.append({"helper": "%s:%s" % (rel, ".".join(k[1:])), "call_sites_inlined": n, "helper_removed": removed})
                    _relink(mod, rel)
        if not progress:
            break
    return done


def _inside(f, fn):
    p = getattr(f, "_parent", None)
    while p is not None:
        if p is fn:
            return True
        p = getattr(p, "_parent", None)
    return False


def _relink(mod, rel):
    for node in ast.walk(mod):
        node._file = rel
        for ch in ast.iter_child_nodes(node):
            ch._parent = node
    mod._parent = None
    ast.fix_missing_locations(mod)


# ---------------------------------------------------------------------------------------------------------------------

def _const_expr(e, depth=0, stable=()):
    """constant expressions that may be propagated: literals, tuples of them, arithmetic on them, dotted names;
    `stable`: module-level names bound exactly once by a class / def / import (they denote the same object everywhere)"""
    if depth > 6:
        return False
    if isinstance(e, ast.Constant):
        return True
    if isinstance(e, (ast.Tuple, ast.List, ast.Set)) and not isinstance(e, ast.Set):
        return isinstance(e, ast.Tuple) and all(_const_expr(x, depth + 1, stable) for x in e.elts)
    if isinstance(e, ast.BinOp):
        return _const_expr(e.left, depth + 1, stable) and _const_expr(e.right, depth + 1, stable)
    if isinstance(e, ast.UnaryOp):
        return _const_expr(e.operand, depth + 1, stable)
    if isinstance(e, ast.Attribute):
        return isinstance(e.value, ast.Name) and e.value.id != "self" and e.attr.isupper()
    if isinstance(e, ast.Name):
        return e.id.isupper() or e.id in ("True", "False", "None") or e.id in stable
    if isinstance(e, ast.Call) and isinstance(e.func, ast.Name) and e.func.id == "frozenset" and len(e.args) == 1:
        return False
    return False


def _is_re_compile(e):
    return isinstance(e, ast.Call) and isinstance(e.func, ast.Attribute) and e.func.attr == "compile" \
        and isinstance(e.func.value, ast.Name) and e.func.value.id == "re" and e.args \
        and all(_const_expr(a) for a in e.args) and not e.keywords


def inline_new_constants(asts, ref):
    done = []
    if not ref:
        return done
    new_consts = {}      # (rel, name) -> value expr
    for rel, mod in asts.items():
        runits = ref.get(rel)
        if runits is None:
            continue
        ref_mod_names = {str(n) for k, n in runits.get("mod", ["", []])[1] if k == "name"}
        stores = {}
        for st in mod.body:
            if isinstance(st, ast.Assign) and len(st.targets) == 1 and isinstance(st.targets[0], ast.Name):
                stores.setdefault(st.targets[0].id, []).append(st)
        bound = {}
        for n in ast.walk(mod):
            if isinstance(n, ast.Name) and isinstance(n.ctx, (ast.Store, ast.Del)):
                bound[n.id] = bound.get(n.id, 0) + 1
            elif isinstance(n, (ast.ClassDef, ast.FunctionDef, ast.AsyncFunctionDef)):
                bound[n.name] = bound.get(n.name, 0) + 1
            elif isinstance(n, ast.arg):
                bound[n.arg] = bound.get(n.arg, 0) + 1
            elif isinstance(n, (ast.Import, ast.ImportFrom)):
                for a in n.names:
                    nm = (a.asname or a.name).split(".")[0]
                    bound[nm] = bound.get(nm, 0) + 1
        stable = {st.name for st in mod.body if isinstance(st, ast.ClassDef) and bound.get(st.name) == 1}
        for st in mod.body:
            if isinstance(st, ast.ImportFrom):
                stable |= {(a.asname or a.name) for a in st.names if bound.get(a.asname or a.name) == 1}
        for name, sts in stores.items():
            if len(sts) != 1 or name in ref_mod_names:
                continue
            v = sts[0].value
            if not (_const_expr(v, 0, stable) or _is_re_compile(v)):
                continue
            # never rebound anywhere else in the module
            rebound = False
            for n in ast.walk(mod):
                if isinstance(n, ast.Name) and n.id == name and isinstance(n.ctx, (ast.Store, ast.Del)) and n is not sts[0].targets[0]:
                    rebound = True
                elif isinstance(n, (ast.Global, ast.Nonlocal)) and name in n.names:
                    rebound = True
                elif isinstance(n, ast.arg) and n.arg == name:
                    rebound = True
            if not rebound:
                new_consts[(rel, name)] = v
    if not new_consts:
        return done
    # constants defined from other new constants: resolve inside the definitions first
    for _ in range(4):
        for (rel, name), v in list(new_consts.items()):
            m = {n: e for (r, n), e in new_consts.items() if r == rel and n != name and not _is_re_compile(e)}
            new_consts[(rel, name)] = _Subst(m).visit(clone(v))
    for rel, mod in asts.items():
        local = {n: e for (r, n), e in new_consts.items() if r == rel}
        # imported new constants:  from ._hints import DIRECT_TCP_V1
        for st in mod.body:
            if isinstance(st, ast.ImportFrom) and st.module is not None:
                for a in st.names:
                    for (r, n), e in new_consts.items():
                        if n == a.name and r.endswith("/" + st.module.split(".")[-1] + ".py"):
                            local[a.asname or a.name] = e
        if not local:
            continue
        plain = {n: e for n, e in local.items() if not _is_re_compile(e)}
        regex = {n: e for n, e in local.items() if _is_re_compile(e)}
        count = [0]

        class T(ast.NodeTransformer):
            def visit_Call(self, node):
                self.generic_visit(node)
                f = node.func
                if isinstance(f, ast.Attribute) and isinstance(f.value, ast.Name) and f.value.id in regex \
                        and f.attr in ("search", "match", "fullmatch", "findall", "sub", "split"):
                    comp = regex[f.value.id]
                    new = ast.Call(func=ast.Attribute(value=ast.Name(id="re", ctx=ast.Load()), attr=f.attr, ctx=ast.Load()),
                                   args=[clone(a) for a in comp.args] + node.args, keywords=node.keywords)
                    ast.copy_location(new, node)
                    ast.fix_missing_locations(new)
                    count[0] += 1
                    return new
                return node

            def visit_Name(self, node):
                if isinstance(node.ctx, ast.Load) and node.id in plain:
                    new = clone(plain[node.id])
                    ast.copy_location(new, node)
                    ast.fix_missing_locations(new)
                    count[0] += 1
                    return new
                return node
        # the defining statements stay; uses everywhere else are replaced
        defs = {id(st) for st in mod.body if isinstance(st, ast.Assign) and len(st.targets) == 1
                and isinstance(st.targets[0], ast.Name) and st.targets[0].id in local}
        t = T()
        for i, st in enumerate(mod.body):
            if id(st) in defs:
                continue
            mod.body[i] = t.visit(st)
        if count[0]:
            done.append({"module": rel, "constants": sorted(local), "uses_replaced": count[0]})
            _relink(mod, rel)
    return done


# ---------------------------------------------------------------------------------------------------------------------

def _unrollable(st):
    if not isinstance(st, ast.For) or st.orelse or not isinstance(st.iter, (ast.Tuple, ast.List)):
        return False
    if not (1 <= len(st.iter.elts) <= 8) or any(isinstance(e, ast.Starred) for e in st.iter.elts):
        return False
    if isinstance(st.target, ast.Name):
        if not all(_simple(e) for e in st.iter.elts):
            return False
        names = {st.target.id}
    elif isinstance(st.target, ast.Tuple) and all(isinstance(t, ast.Name) for t in st.target.elts):
        for e in st.iter.elts:
            if not (isinstance(e, (ast.Tuple, ast.List)) and len(e.elts) == len(st.target.elts) and all(_simple(x) for x in e.elts)):
                return False
        names = {t.id for t in st.target.elts}
    else:
        return False
    for b in st.body:
        for n in ast.walk(b):
            if isinstance(n, (ast.FunctionDef, ast.AsyncFunctionDef, ast.Lambda, ast.ClassDef)):
                return False
            if isinstance(n, (ast.Break, ast.Continue)) and _loop_of(n, st):
                return False
            if isinstance(n, ast.Name) and n.id in names and isinstance(n.ctx, (ast.Store, ast.Del)):
                return False
    return True


def unroll_literal_loops(asts, ref):
    """`for x in (a, b, c): body` over a literal display of simple expressions, in functions that differ from the
    reference: replaced by body[x:=a]; body[x:=b]; body[x:=c] (the loop variable must not be used after the loop)."""
    from .canon import sig_of
    done = []
    if not ref:
        return done
    for rel, mod in asts.items():
        runits = ref.get(rel)
        if runits is None:
            continue
        changed = False
        for k, fn in _units(mod).items():
            if k[0] not in ("meth", "fn"):
                continue
            r = runits.get("|".join(k))
            if r is not None and r[0] == sig_of(fn).shape:
                continue
            n = 0
            again = True
            while again:
                again = False
                for lst in _stmt_lists(fn):
                    for i, st in enumerate(lst):
                        if _unrollable(st):
                            tnames = [st.target.id] if isinstance(st.target, ast.Name) else [t.id for t in st.target.elts]
                            # the loop variable is dead after the loop
                            used_later = any(isinstance(x, ast.Name) and x.id in tnames for later in lst[i + 1:] for x in ast.walk(later))
                            if used_later:
                                continue
                            # iteration-private locals (first touched by a plain top-level assignment of the body, never
                            # mentioned outside the loop) get one name per iteration: each is then bound once
                            private = []
                            for b in st.body:
                                if isinstance(b, ast.Assign) and len(b.targets) == 1 and isinstance(b.targets[0], ast.Name):
                                    nm = b.targets[0].id
                                    if nm in private or nm in tnames:
                                        continue
                                    earlier = any(isinstance(x, ast.Name) and x.id == nm for bb in st.body[:st.body.index(b)] for x in ast.walk(bb)) \
                                        or any(isinstance(x, ast.Name) and x.id == nm for x in ast.walk(b.value))
                                    outside = sum(1 for x in ast.walk(fn) if isinstance(x, ast.Name) and x.id == nm) \
                                        - sum(1 for x in ast.walk(st) if isinstance(x, ast.Name) and x.id == nm)
                                    if not earlier and not outside:
                                        private.append(nm)
                            new = []
                            for it, e in enumerate(st.iter.elts):
                                vals = [e] if isinstance(st.target, ast.Name) else list(e.elts)
                                m = dict(zip(tnames, vals))
                                for b in st.body:
                                    nb = clone(b)
                                    if private and len(st.iter.elts) > 1:
                                        for x in ast.walk(nb):
                                            if isinstance(x, ast.Name) and x.id in private:
                                                x.id = "%s__%d" % (x.id, it)
                                    nb = _Subst(m).visit(nb)
                                    ast.fix_missing_locations(nb)
                                    new.append(nb)
                            lst[i:i + 1] = new
                            n += 1
                            again = True
                            break
                    if again:
                        break
            if n:
                changed = True
                done.append({"function": "%s:%s" % (rel, ".".join(k[1:])), "literal_loops_unrolled": n})
        if changed:
            _relink(mod, rel)
    return done


# ---------------------------------------------------------------------------------------------------------------------
# idiom normalisation (functions that differ from the reference only): each rewrite replaces an idiom by an
# equivalent one the rules are written for.

def _same(a, b):
    return ast.dump(a) == ast.dump(b)


def _touches(stmts, expr):
    """do the statements mention the object `expr` (conservatively: any occurrence of the same expression)?"""
    d = ast.dump(expr)
    for st in stmts:
        for n in ast.walk(st):
            if isinstance(n, (ast.Name, ast.Attribute, ast.Subscript)) and ast.dump(n).replace("Store()", "Load()").replace("Del()", "Load()") == d:
                return True
            if isinstance(n, ast.Call):
                return True          # a call may do anything to the container
    return False


def _load(e):
    e = clone(e)
    for n in ast.walk(e):
        if hasattr(n, "ctx"):
            n.ctx = ast.Load()
    return e


def _is_deque_attr(fn, expr):
    """expr is self.<a> and some method of the class binds self.<a> to deque(..)"""
    if not (isinstance(expr, ast.Attribute) and isinstance(expr.value, ast.Name) and expr.value.id == "self"):
        return False
    cls = getattr(fn, "_parent", None)
    while cls is not None and not isinstance(cls, ast.ClassDef):
        cls = getattr(cls, "_parent", None)
    if cls is None:
        return False
    for a in ast.walk(cls):
        if isinstance(a, ast.Assign) and any(isinstance(t, ast.Attribute) and t.attr == expr.attr and isinstance(t.value, ast.Name)
                                             and t.value.id == "self" for t in a.targets) \
                and isinstance(a.value, ast.Call) and isinstance(a.value.func, (ast.Name, ast.Attribute)) \
                and (a.value.func.id if isinstance(a.value.func, ast.Name) else a.value.func.attr) == "deque":
            return True
    return False


def _ancestors_upto(node, top):
    out = []
    while getattr(node, "_parent", None) is not None and node is not top:
        node = node._parent
        out.append(node)
    return out


def _is_private_sentinel(fn, name):
    """`name` is bound once at module level to object() and otherwise only read in `is` / `is not` tests or as a
    default argument of .pop / .get / getattr (never stored in a container, never passed on)"""
    mod = fn
    while getattr(mod, "_parent", None) is not None:
        mod = mod._parent
    if not isinstance(mod, ast.Module):
        return False
    binds = [b for b in mod.body if isinstance(b, ast.Assign) and len(b.targets) == 1 and isinstance(b.targets[0], ast.Name)
             and b.targets[0].id == name]
    if len(binds) != 1 or not (isinstance(binds[0].value, ast.Call) and isinstance(binds[0].value.func, ast.Name)
                               and binds[0].value.func.id == "object" and not binds[0].value.args):
        return False
    for x in ast.walk(mod):
        if isinstance(x, ast.Name) and x.id == name and x is not binds[0].targets[0]:
            par = getattr(x, "_parent", None)
            if isinstance(par, ast.Compare) and all(isinstance(o, (ast.Is, ast.IsNot)) for o in par.ops):
                continue
            if isinstance(par, ast.Call) and x in par.args and (
                    (isinstance(par.func, ast.Attribute) and par.func.attr in ("pop", "get") and par.args.index(x) == 1)
                    or (isinstance(par.func, ast.Name) and par.func.id == "getattr" and par.args.index(x) == 2)):
                continue
            return False
    return True


def _norm_block(lst, fn):
    """one pass over a statement list; returns number of rewrites"""
    n = 0
    i = 0
    while i < len(lst):
        st = lst[i]
        # self.a = self.a + k   ->   self.a += k
        if isinstance(st, ast.Assign) and len(st.targets) == 1 and isinstance(st.targets[0], ast.Attribute) \
                and isinstance(st.value, ast.BinOp) and isinstance(st.value.op, (ast.Add, ast.Sub)):
            t = st.targets[0]
            l = st.value.left
            src = None
            if _same(_load(t), l):
                src = "direct"
            elif isinstance(l, ast.Name):
                # v = self.a ... self.a = v + k   with v bound once, to self.a, earlier in this block, no write to self.a between
                defs = [s for s in lst[:i] if isinstance(s, ast.Assign) and len(s.targets) == 1
                        and isinstance(s.targets[0], ast.Name) and s.targets[0].id == l.id]
                alldefs = [x for x in ast.walk(fn) if isinstance(x, ast.Name) and x.id == l.id and isinstance(x.ctx, ast.Store)]
                if not defs and len(alldefs) == 1:
                    # the local was bound in an enclosing block: fine when this statement is the function's only write to the
                    # attribute (nothing can have changed it in between) and the binding comes first
                    outer = [s for s in ast.walk(fn) if isinstance(s, ast.Assign) and len(s.targets) == 1 and isinstance(s.targets[0], ast.Name)
                             and s.targets[0].id == l.id and _same(s.value, _load(t))]
                    stores = [x for x in ast.walk(fn) if isinstance(x, ast.Attribute) and isinstance(x.ctx, ast.Store) and _same(_load(x), _load(t))]
                    encl = st
                    dominated = False
                    while outer and getattr(encl, "_parent", None) is not None and encl is not fn:
                        par = encl._parent
                        for f in ("body", "orelse", "finalbody"):
                            blk = getattr(par, f, None)
                            if isinstance(blk, list) and encl in blk and outer[0] in blk and blk.index(outer[0]) < blk.index(encl):
                                dominated = True
                        encl = par
                    if len(outer) == 1 and len(stores) == 1 and dominated \
                            and not any(isinstance(a, (ast.While, ast.For)) for a in _ancestors_upto(st, fn)):
                        src = "via-outer-local"
                if len(defs) == 1 and len(alldefs) == 1 and _same(defs[0].value, _load(t)):
                    j = lst.index(defs[0])
                    between = lst[j + 1:i]
                    if not any(isinstance(x, ast.Attribute) and isinstance(x.ctx, ast.Store) and _same(_load(x), _load(t))
                               for b in between for x in ast.walk(b)):
                        src = "via-local"
            if src:
                new = ast.AugAssign(target=clone(t), op=st.value.op, value=st.value.right)
                ast.copy_location(new, st)
                ast.fix_missing_locations(new)
                lst[i] = new
                n += 1
                i += 1
                continue
        # if (x := E) ..:   ->   x = E; if x ..:      (the assignment expression is the first thing the test evaluates)
        if isinstance(st, ast.If):
            holder = field = idx = None
            t = st.test
            chain = [(st, "test", None)]
            cur = t
            hops = 0
            while hops < 6:
                hops += 1
                if isinstance(cur, ast.NamedExpr):
                    break
                if isinstance(cur, ast.UnaryOp) and isinstance(cur.op, ast.Not):
                    chain.append((cur, "operand", None))
                    cur = cur.operand
                elif isinstance(cur, ast.BoolOp):
                    chain.append((cur, "values", 0))
                    cur = cur.values[0]
                elif isinstance(cur, ast.Compare):
                    chain.append((cur, "left", None))
                    cur = cur.left
                elif isinstance(cur, ast.Call) and isinstance(cur.func, ast.Name) and cur.func.id in ("isinstance", "len", "bool") and cur.args:
                    chain.append((cur, "args", 0))
                    cur = cur.args[0]
                else:
                    break
            if isinstance(cur, ast.NamedExpr) and isinstance(cur.target, ast.Name):
                holder, field, idx = chain[-1]
                new_name = ast.copy_location(ast.Name(id=cur.target.id, ctx=ast.Load()), cur)
                if idx is None:
                    setattr(holder, field, new_name)
                else:
                    getattr(holder, field)[idx] = new_name
                asg = ast.Assign(targets=[ast.Name(id=cur.target.id, ctx=ast.Store())], value=cur.value)
                ast.copy_location(asg, st)
                ast.fix_missing_locations(asg)
                lst.insert(i, asg)
                n += 1
                i += 1          # the If is looked at again on the next pass
                continue
        # x = A if C else B   ->   if C: x = A  else: x = B
        if isinstance(st, ast.Assign) and len(st.targets) == 1 and isinstance(st.value, ast.IfExp):
            e = st.value
            a1 = ast.Assign(targets=[clone(st.targets[0])], value=e.body)
            a2 = ast.Assign(targets=[clone(st.targets[0])], value=e.orelse)
            new = ast.If(test=e.test, body=[a1], orelse=[a2])
            ast.copy_location(new, st)
            for r in (a1, a2):
                ast.copy_location(r, st)
            ast.fix_missing_locations(new)
            lst[i] = new
            n += 1
            continue
        # return A if C else B   ->   if C: return A  else: return B
        if isinstance(st, ast.Return) and isinstance(st.value, ast.IfExp):
            e = st.value
            new = ast.If(test=e.test, body=[ast.Return(value=e.body)], orelse=[ast.Return(value=e.orelse)])
            ast.copy_location(new, st)
            for r in new.body + new.orelse:
                ast.copy_location(r, st)
            ast.fix_missing_locations(new)
            lst[i] = new
            n += 1
            continue
        # flag = <test>; if flag: / if not flag: / while ...   (flag bound once, used once, in the test of the very next statement)
        #   ->   the test written in place
        if isinstance(st, ast.Assign) and len(st.targets) == 1 and isinstance(st.targets[0], ast.Name) \
                and isinstance(st.value, (ast.Compare, ast.BoolOp, ast.UnaryOp)) and i + 1 < len(lst) and isinstance(lst[i + 1], ast.If):
            nm = st.targets[0].id
            occ = [x for x in ast.walk(fn) if isinstance(x, ast.Name) and x.id == nm]
            in_test = [x for x in ast.walk(lst[i + 1].test) if isinstance(x, ast.Name) and x.id == nm and isinstance(x.ctx, ast.Load)]
            if len(occ) == 2 and len(in_test) == 1:
                tgt = in_test[0]
                nxt = lst[i + 1]
                # the flag must be the first thing the test evaluates: the test itself, `not flag`, or the leftmost operand
                holder, field, idx = None, None, None
                t = nxt.test
                if t is tgt:
                    holder, field = nxt, "test"
                elif isinstance(t, ast.UnaryOp) and t.operand is tgt:
                    holder, field = t, "operand"
                elif isinstance(t, ast.BoolOp) and t.values[0] is tgt:
                    holder, field, idx = t, "values", 0
                elif isinstance(t, ast.BoolOp) and isinstance(t.values[0], ast.UnaryOp) and t.values[0].operand is tgt:
                    holder, field = t.values[0], "operand"
                if holder is not None:
                    if idx is None:
                        setattr(holder, field, st.value)
                    else:
                        getattr(holder, field)[idx] = st.value
                    ast.fix_missing_locations(nxt)
                    del lst[i]
                    n += 1
                    continue
        # v = d[k] ... del d[k]   ->   v = d.pop(k)
        if isinstance(st, ast.Assign) and len(st.targets) == 1 and isinstance(st.targets[0], (ast.Name, ast.Tuple)) \
                and isinstance(st.value, ast.Subscript) and not isinstance(st.value.slice, ast.Slice):
            for j in range(i + 1, min(i + 4, len(lst))):
                d = lst[j]
                if isinstance(d, ast.Delete) and len(d.targets) == 1 and _same(_load(d.targets[0]), st.value):
                    between = lst[i + 1:j]
                    if not _touches(between, st.value.value):
                        call = ast.Call(func=ast.Attribute(value=clone(st.value.value), attr="pop", ctx=ast.Load()),
                                        args=[clone(st.value.slice)], keywords=[])
                        if _is_deque_attr(fn, st.value.value) and isinstance(st.value.slice, ast.Constant) and st.value.slice.value == 0:
                            call = ast.Call(func=ast.Attribute(value=clone(st.value.value), attr="popleft", ctx=ast.Load()),
                                            args=[], keywords=[])
                        st.value = call
                        ast.fix_missing_locations(st)
                        del lst[j]
                        n += 1
                    break
        # del self.q[0]   ->   self.q.popleft()     (q a deque attribute of the class)
        if isinstance(st, ast.Delete) and len(st.targets) == 1 and isinstance(st.targets[0], ast.Subscript) \
                and isinstance(st.targets[0].slice, ast.Constant) and st.targets[0].slice.value == 0 \
                and _is_deque_attr(fn, st.targets[0].value):
            new = ast.Expr(value=ast.Call(func=ast.Attribute(value=_load(st.targets[0].value), attr="popleft", ctx=ast.Load()), args=[], keywords=[]))
            ast.copy_location(new, st)
            ast.fix_missing_locations(new)
            lst[i] = new
            n += 1
        # if k in d: del d[k]   ->   d.pop(k, None)
        if isinstance(st, ast.If) and not st.orelse and len(st.body) == 1 and isinstance(st.body[0], ast.Delete) \
                and isinstance(st.test, ast.Compare) and len(st.test.ops) == 1 and isinstance(st.test.ops[0], ast.In):
            d = st.body[0]
            if len(d.targets) == 1 and isinstance(d.targets[0], ast.Subscript) and _same(_load(d.targets[0].value), st.test.comparators[0]) \
                    and _same(_load(d.targets[0].slice), st.test.left):
                call = ast.Expr(value=ast.Call(func=ast.Attribute(value=clone(st.test.comparators[0]), attr="pop", ctx=ast.Load()),
                                               args=[clone(st.test.left), ast.Constant(value=None)], keywords=[]))
                ast.copy_location(call, st)
                ast.fix_missing_locations(call)
                lst[i] = call
                n += 1
        # while True: v = D.pop(K, SENTINEL); if v is SENTINEL: break; rest   ->   while K in D: v = D.pop(K); rest
        # (SENTINEL a module-level `object()` that is never stored anywhere: "absent" and "is the sentinel" coincide)
        if isinstance(st, ast.While) and isinstance(st.test, ast.Constant) and st.test.value is True and not st.orelse and len(st.body) >= 3:
            a0, a1 = st.body[0], st.body[1]
            if isinstance(a0, ast.Assign) and len(a0.targets) == 1 and isinstance(a0.targets[0], ast.Name) \
                    and isinstance(a0.value, ast.Call) and isinstance(a0.value.func, ast.Attribute) and a0.value.func.attr == "pop" \
                    and len(a0.value.args) == 2 and isinstance(a0.value.args[1], ast.Name) and not a0.value.keywords \
                    and isinstance(a1, ast.If) and not a1.orelse and len(a1.body) == 1 and isinstance(a1.body[0], ast.Break) \
                    and isinstance(a1.test, ast.Compare) and len(a1.test.ops) == 1 and isinstance(a1.test.ops[0], ast.Is) \
                    and isinstance(a1.test.left, ast.Name) and a1.test.left.id == a0.targets[0].id \
                    and isinstance(a1.test.comparators[0], ast.Name) and a1.test.comparators[0].id == a0.value.args[1].id \
                    and _is_private_sentinel(fn, a0.value.args[1].id) \
                    and not any(isinstance(x, ast.Break) and _loop_of(x, st) for b in st.body[2:] for x in ast.walk(b)):
                key = a0.value.args[0]
                st.test = ast.Compare(left=clone(key), ops=[ast.In()], comparators=[clone(a0.value.func.value)])
                a0.value.args = [key]
                st.body = [a0] + st.body[2:]
                ast.fix_missing_locations(st)
                n += 1
        # while True: if not c: break; body   ->   while c: body
        if isinstance(st, ast.While) and isinstance(st.test, ast.Constant) and st.test.value is True and not st.orelse and st.body:
            first = st.body[0]
            cond = None
            if isinstance(first, ast.If) and len(first.body) == 1 and isinstance(first.body[0], ast.Break) and not first.orelse:
                cond = ast.UnaryOp(op=ast.Not(), operand=first.test)
                if isinstance(first.test, ast.UnaryOp) and isinstance(first.test.op, ast.Not):
                    cond = first.test.operand
                elif isinstance(first.test, ast.Compare) and len(first.test.ops) == 1 and isinstance(first.test.ops[0], (ast.NotIn, ast.In, ast.Is, ast.IsNot, ast.Eq, ast.NotEq)):
                    flip = {ast.NotIn: ast.In, ast.In: ast.NotIn, ast.Is: ast.IsNot, ast.IsNot: ast.Is, ast.Eq: ast.NotEq, ast.NotEq: ast.Eq}
                    cond = ast.Compare(left=first.test.left, ops=[flip[type(first.test.ops[0])]()], comparators=first.test.comparators)
                rest = st.body[1:]
            elif isinstance(first, ast.If) and first.orelse and len(first.orelse) == 1 and isinstance(first.orelse[0], ast.Break) \
                    and len(st.body) == 1:
                cond = first.test
                rest = first.body
            if cond is not None and rest and not any(isinstance(x, ast.Break) and _loop_of(x, st) for b in rest for x in ast.walk(b)):
                st.test = cond
                st.body = rest
                ast.fix_missing_locations(st)
                n += 1
        # while A: if B: break; rest   ->   while A and not B: rest
        if isinstance(st, ast.While) and not (isinstance(st.test, ast.Constant)) and not st.orelse and len(st.body) >= 2:
            first = st.body[0]
            if isinstance(first, ast.If) and len(first.body) == 1 and isinstance(first.body[0], ast.Break) and not first.orelse \
                    and not any(isinstance(x, ast.Break) and _loop_of(x, st) for b in st.body[1:] for x in ast.walk(b)):
                t = first.test
                flip = {ast.NotIn: ast.In, ast.In: ast.NotIn, ast.Is: ast.IsNot, ast.IsNot: ast.Is, ast.Eq: ast.NotEq, ast.NotEq: ast.Eq,
                        ast.Lt: ast.GtE, ast.GtE: ast.Lt, ast.Gt: ast.LtE, ast.LtE: ast.Gt}
                if isinstance(t, ast.UnaryOp) and isinstance(t.op, ast.Not):
                    neg = t.operand
                elif isinstance(t, ast.Compare) and len(t.ops) == 1 and type(t.ops[0]) in flip:
                    neg = ast.Compare(left=t.left, ops=[flip[type(t.ops[0])]()], comparators=t.comparators)
                else:
                    neg = ast.UnaryOp(op=ast.Not(), operand=t)
                st.test = ast.BoolOp(op=ast.And(), values=[st.test, neg])
                st.body = st.body[1:]
                ast.fix_missing_locations(st)
                n += 1
        # a, b = x, y   ->   a = x; b = y      (when no target name occurs in the values)
        if isinstance(st, ast.Assign) and len(st.targets) == 1 and isinstance(st.targets[0], ast.Tuple) and isinstance(st.value, ast.Tuple) \
                and len(st.targets[0].elts) == len(st.value.elts) \
                and all(isinstance(e, ast.Name) or (isinstance(e, ast.Attribute) and isinstance(e.value, ast.Name)) for e in st.targets[0].elts) \
                and not any(isinstance(e, ast.Starred) for e in st.value.elts):
            tg = st.targets[0].elts
            # sequential assignment is equivalent when no later value reads an earlier target (values without calls after the first)
            def reads(v, t):
                d = ast.dump(_load(t))
                return any(ast.dump(x) == d for x in ast.walk(v) if isinstance(x, (ast.Name, ast.Attribute)))
            safe = all(not reads(st.value.elts[j], tg[i]) for i in range(len(tg)) for j in range(i + 1, len(tg))) \
                and not any(_has_call(v) for v in st.value.elts[1:])
            if safe:
                new = []
                for t, v in zip(st.targets[0].elts, st.value.elts):
                    t2 = clone(t)
                    for x in ast.walk(t2):
                        if hasattr(x, "ctx") and x is t2:
                            x.ctx = ast.Store()
                    a = ast.Assign(targets=[t2], value=v)
                    ast.copy_location(a, st)
                    ast.fix_missing_locations(a)
                    new.append(a)
                lst[i:i + 1] = new
                n += 1
                i += len(new)
                continue
        # X = [E for t in IT if C]  /  return {E for ..}   ->   X = []; for t in IT: if C: X.append(E)
        comp = None
        if isinstance(st, ast.Assign) and len(st.targets) == 1 and isinstance(st.targets[0], ast.Name) and isinstance(st.value, (ast.ListComp, ast.SetComp)):
            comp, accname = st.value, st.targets[0].id
        elif isinstance(st, ast.Return) and isinstance(st.value, (ast.ListComp, ast.SetComp)):
            comp, accname = st.value, "_acc"
            while any(isinstance(x, ast.Name) and x.id == accname for x in ast.walk(fn)):
                accname += "_"
        if comp is not None and len(comp.generators) == 1 and not comp.generators[0].is_async \
                and not any(isinstance(x, ast.Name) and x.id == accname for x in ast.walk(comp)):
            gen = comp.generators[0]
            is_set = isinstance(comp, ast.SetComp)
            init = ast.Assign(targets=[ast.Name(id=accname, ctx=ast.Store())],
                              value=(ast.Call(func=ast.Name(id="set", ctx=ast.Load()), args=[], keywords=[]) if is_set else ast.List(elts=[], ctx=ast.Load())))
            add = ast.Expr(value=ast.Call(func=ast.Attribute(value=ast.Name(id=accname, ctx=ast.Load()), attr="add" if is_set else "append", ctx=ast.Load()),
                                          args=[comp.elt], keywords=[]))
            body = [add]
            for cond in reversed(gen.ifs):
                body = [ast.If(test=cond, body=body, orelse=[])]
            tgt = clone(gen.target)
            for x in ast.walk(tgt):
                if hasattr(x, "ctx"):
                    x.ctx = ast.Store()
            loop = ast.For(target=tgt, iter=gen.iter, body=body, orelse=[])
            new = [init, loop]
            if isinstance(st, ast.Return):
                new.append(ast.Return(value=ast.Name(id=accname, ctx=ast.Load())))
            for x in new:
                ast.copy_location(x, st)
                ast.fix_missing_locations(x)
            lst[i:i + 1] = new
            n += 1
            i += len(new)
            continue
        # [f(x) for x in xs]  as a statement   ->   for x in xs: f(x)
        if isinstance(st, ast.Expr) and isinstance(st.value, ast.ListComp) and len(st.value.generators) == 1 \
                and not st.value.generators[0].is_async:
            gen = st.value.generators[0]
            body = [ast.Expr(value=st.value.elt)]
            for cond in reversed(gen.ifs):
                body = [ast.If(test=cond, body=body, orelse=[])]
            tgt = clone(gen.target)
            for x in ast.walk(tgt):
                if hasattr(x, "ctx"):
                    x.ctx = ast.Store()
            new = ast.For(target=tgt, iter=gen.iter, body=body, orelse=[])
            ast.copy_location(new, st)
            ast.fix_missing_locations(new)
            lst[i] = new
            n += 1
        i += 1
    return n


def _loop_of(brk, loop):
    """is `brk` a break of `loop` itself (not of a nested loop)?"""
    p = getattr(brk, "_parent", None)
    while p is not None and p is not loop:
        if isinstance(p, (ast.For, ast.While, ast.AsyncFor)):
            return False
        p = getattr(p, "_parent", None)
    return True


def dotted_name(e):
    parts = []
    while isinstance(e, ast.Attribute):
        parts.append(e.attr)
        e = e.value
    if isinstance(e, ast.Name):
        parts.append(e.id)
        return ".".join(reversed(parts))
    return None


_SETUP_METHODS = ("__init__", "__attrs_post_init__", "wire")


def _stable_attrs_by_class(mod):
    """class name -> attributes of self that are assigned ONLY in the set-up methods (constructor, wire()): they denote one object for
    the whole life of the instance, so a bound method looked up through them once (`tx = self._RC.tx_add`) is the method every later
    lookup would have found - also across re-entrant calls."""
    out = {}
    for c in ast.walk(mod):
        if not isinstance(c, ast.ClassDef):
            continue
        setup, later = set(), set()
        for f in c.body:
            if not isinstance(f, (ast.FunctionDef, ast.AsyncFunctionDef)):
                continue
            for t in ast.walk(f):
                if isinstance(t, ast.Attribute) and isinstance(t.ctx, (ast.Store, ast.Del)) and isinstance(t.value, ast.Name) and t.value.id == "self":
                    (setup if f.name in _SETUP_METHODS else later).add(t.attr)
        # attrs fields (`_noise = attrib(..)`): set by the generated __init__
        for st in c.body:
            if isinstance(st, (ast.Assign, ast.AnnAssign)) and isinstance(getattr(st, "value", None), ast.Call) \
                    and (dotted_name(st.value.func) or "").split(".")[-1] in ("attrib", "ib", "field"):
                for t in (st.targets if isinstance(st, ast.Assign) else [st.target]):
                    if isinstance(t, ast.Name):
                        setup.add(t.id)
        out[c.name] = setup - later
    return out


def _eliminate_attr_aliases(fn, stable=frozenset()):
    """x = self.attr   (x bound exactly once, self.attr never rebound in the function)  ->  uses of x replaced by self.attr.
    The alias denotes the same object throughout, so every read and every method call through it is one on the attribute.
    Also x = self.attr.method for an attribute that is assigned in the set-up methods only (`stable`): a bound method hoisted out of a loop."""
    n = 0
    binds = {}
    for node in ast.walk(fn):
        if isinstance(node, ast.Name) and isinstance(node.ctx, (ast.Store, ast.Del)):
            binds[node.id] = binds.get(node.id, 0) + 1
        elif isinstance(node, ast.arg):
            binds[node.arg] = binds.get(node.arg, 0) + 1
    rebound_attrs = {t.attr for node in ast.walk(fn) if isinstance(node, (ast.Assign, ast.AugAssign, ast.AnnAssign, ast.Delete))
                     for t in ast.walk(node) if isinstance(t, ast.Attribute) and isinstance(t.ctx, (ast.Store, ast.Del))
                     and isinstance(t.value, ast.Name) and t.value.id == "self"}
    for lst in _stmt_lists(fn):
        for st in list(lst):
            one_level = isinstance(st, ast.Assign) and isinstance(st.value, ast.Attribute) and isinstance(st.value.value, ast.Name) \
                and st.value.value.id == "self" and st.value.attr not in rebound_attrs
            two_level = isinstance(st, ast.Assign) and isinstance(st.value, ast.Attribute) and isinstance(st.value.value, ast.Attribute) \
                and isinstance(st.value.value.value, ast.Name) and st.value.value.value.id == "self" and st.value.value.attr in stable \
                and st.value.value.attr not in rebound_attrs
            if isinstance(st, ast.Assign) and len(st.targets) == 1 and isinstance(st.targets[0], ast.Name) \
                    and (one_level or two_level) and binds.get(st.targets[0].id) == 1:
                name = st.targets[0].id
                # nested functions / lambdas capturing the alias keep it (late binding is the same object, but stay conservative)
                captured = any(isinstance(x, ast.Name) and x.id == name for f2 in ast.walk(fn)
                               if isinstance(f2, (ast.Lambda, ast.FunctionDef, ast.AsyncFunctionDef)) and f2 is not fn for x in ast.walk(f2))
                if captured:
                    continue
                repl = st.value
                for x in ast.walk(fn):
                    for field, val in ast.iter_fields(x):
                        if isinstance(val, ast.Name) and val.id == name and isinstance(val.ctx, ast.Load):
                            setattr(x, field, clone(repl))
                        elif isinstance(val, list):
                            for i, v in enumerate(val):
                                if isinstance(v, ast.Name) and v.id == name and isinstance(v.ctx, ast.Load):
                                    val[i] = clone(repl)
                lst.remove(st)
                n += 1
    if n:
        ast.fix_missing_locations(fn)
    return n


def normalize_idioms(asts, ref):
    from .canon import sig_of
    done = []
    if not ref:
        return done
    for rel, mod in asts.items():
        runits = ref.get(rel)
        if runits is None:
            continue
        changed = False
        stable_by_cls = _stable_attrs_by_class(mod)
        for k, fn in _units(mod).items():
            if k[0] not in ("meth", "fn"):
                continue
            r = runits.get("|".join(k))
            if r is not None and r[0] == sig_of(fn).shape:
                continue
            n = _eliminate_attr_aliases(fn, stable_by_cls.get(k[1], frozenset()) if k[0] == "meth" else frozenset())
            for _ in range(3):
                _relink(mod, rel)
                m = sum(_norm_block(lst, fn) for lst in _stmt_lists(fn))
                n += m
                if not m:
                    break
            if n:
                changed = True
                done.append({"function": "%s:%s" % (rel, ".".join(k[1:])), "idioms_normalised": n})
        if changed:
            _relink(mod, rel)
    return done


# ---------------------------------------------------------------------------------------------------------------------
# the inverse of inline_new_helpers: a helper of the reference tree that is GONE because a maintainer pasted its body
# into its callers.  Where a run of statements in a function of the same class / module is exactly that body (parameters
# bound to expressions, the helper's own locals renamed one-to-one), the run is replaced by a call and the reference
# definition is put back.  The transformed program is equivalent to the program under analysis (a call to a function
# whose body is the replaced code), so again nothing can be hidden; rules anchored on the helper find it again.

def _match(r, c, params, locals_, sigma, lam):
    """structural match of reference node r against current node c"""
    if isinstance(r, ast.Name) and isinstance(r.ctx, ast.Load) and r.id in params:
        d = ast.dump(c)
        if r.id in sigma:
            return ast.dump(sigma[r.id]) == d
        if not isinstance(c, ast.expr):
            return False
        sigma[r.id] = c
        return True
    if type(r) is not type(c):
        return False
    if isinstance(r, ast.Name):
        if r.id in locals_:
            if r.id in lam:
                return lam[r.id] == c.id
            if c.id in lam.values():
                return False
            lam[r.id] = c.id
            return True
        return r.id == c.id
    if isinstance(r, ast.AST):
        for f in r._fields:
            if f in ("ctx", "type_comment", "lineno", "col_offset", "end_lineno", "end_col_offset"):
                continue
            a, b = getattr(r, f, None), getattr(c, f, None)
            if isinstance(a, list):
                star = next((p_[1:] for p_ in params if p_.startswith("*")), None)
                if star and a and isinstance(a[-1], ast.Starred) and isinstance(a[-1].value, ast.Name) and a[-1].value.id == star \
                        and isinstance(b, list) and len(b) >= len(a) - 1 and not any(isinstance(y, ast.Starred) for y in b):
                    # f(x, *args) in the helper against f(x, p, q) in the pasted copy: args = (p, q)
                    rest = b[len(a) - 1:]
                    key = "*" + star
                    if key in sigma:
                        if [ast.dump(y) for y in sigma[key]] != [ast.dump(y) for y in rest]:
                            return False
                    else:
                        sigma[key] = rest
                    a, b = a[:-1], b[:len(a) - 1]
                if not isinstance(b, list) or len(a) != len(b):
                    return False
                for x, y in zip(a, b):
                    if not _match(x, y, params, locals_, sigma, lam):
                        return False
            elif isinstance(a, ast.AST):
                if not isinstance(b, ast.AST) or not _match(a, b, params, locals_, sigma, lam):
                    return False
            else:
                if a != b:
                    return False
        return True
    return r == c


def namedtuples_to_tuples(asts, ref):
    """A namedtuple type that is new relative to the reference and only ever constructed (N(..) with every field given) is
    read as the plain tuple it extends: N(a, b) -> (a, b); a local that is only ever used as <local>.<field of N> and is bound
    by a for-loop or a plain assignment is unpacked where it is bound:  for v in X: f(v.a, v.b)  ->  for (v__a, v__b) in X: f(v__a, v__b).
    (A namedtuple IS a tuple with the fields in this order; the rewrite only changes how elements are named.)"""
    done = []
    if not ref:
        return done
    for rel, mod in asts.items():
        runits = ref.get(rel)
        if runits is None:
            continue
        ref_mod_names = {str(n) for k, n in runits.get("mod", ["", []])[1] if k == "name"}
        types = {}
        for st in mod.body:
            if isinstance(st, ast.Assign) and len(st.targets) == 1 and isinstance(st.targets[0], ast.Name) and isinstance(st.value, ast.Call) \
                    and (st.value.func.id if isinstance(st.value.func, ast.Name) else getattr(st.value.func, "attr", None)) == "namedtuple" \
                    and len(st.value.args) == 2 and st.targets[0].id not in ref_mod_names:
                f = st.value.args[1]
                if isinstance(f, (ast.List, ast.Tuple)) and all(isinstance(e, ast.Constant) and isinstance(e.value, str) for e in f.elts):
                    types[st.targets[0].id] = [e.value for e in f.elts]
                elif isinstance(f, ast.Constant) and isinstance(f.value, str):
                    types[st.targets[0].id] = f.value.replace(",", " ").split()
        for st in mod.body:
            # class N(NamedTuple):  a: T; b: U      (typing.NamedTuple spelling of the same thing)
            if isinstance(st, ast.ClassDef) and st.name not in ref_mod_names and len(st.bases) == 1 \
                    and (getattr(st.bases[0], "id", None) == "NamedTuple" or getattr(st.bases[0], "attr", None) == "NamedTuple") \
                    and not st.decorator_list:
                body = [b for b in st.body if not _is_doc(b)]
                if body and all(isinstance(b, ast.AnnAssign) and isinstance(b.target, ast.Name) and b.value is None for b in body):
                    types[st.name] = [b.target.id for b in body]
        if not types:
            continue
        # every mention of the type is a complete construction
        usable = {}
        for N, fields in types.items():
            okN = True
            for n in ast.walk(mod):
                if isinstance(n, ast.Name) and n.id == N and isinstance(n.ctx, ast.Load):
                    par = getattr(n, "_parent", None)
                    anc, in_ann = n, False
                    while getattr(anc, "_parent", None) is not None:
                        p_ = anc._parent
                        if (isinstance(p_, ast.AnnAssign) and p_.annotation is anc) or (isinstance(p_, ast.arg) and p_.annotation is anc) \
                                or (isinstance(p_, (ast.FunctionDef, ast.AsyncFunctionDef)) and p_.returns is anc):
                            in_ann = True
                            break
                        anc = p_
                    if in_ann:
                        continue
                    if not (isinstance(par, ast.Call) and par.func is n and not any(isinstance(a, ast.Starred) for a in par.args)
                            and all(k.arg in fields for k in par.keywords)
                            and len(par.args) + len(par.keywords) == len(fields)
                            and not (set(fields[:len(par.args)]) & {k.arg for k in par.keywords})):
                        okN = False
            if okN:
                usable[N] = fields
        if not usable:
            continue
        count = [0]

        class Ctor(ast.NodeTransformer):
            def visit_Call(self, node):
                self.generic_visit(node)
                if isinstance(node.func, ast.Name) and node.func.id in usable:
                    fields = usable[node.func.id]
                    vals = dict(zip(fields, node.args))
                    vals.update({k.arg: k.value for k in node.keywords})
                    count[0] += 1
                    return ast.copy_location(ast.Tuple(elts=[vals[f] for f in fields], ctx=ast.Load()), node)
                return node
        Ctor().visit(mod)
        # locals used only as records of one of these types
        for fn in [x for x in ast.walk(mod) if isinstance(x, (ast.FunctionDef, ast.AsyncFunctionDef))]:
            names = {}
            for n in ast.walk(fn):
                if isinstance(n, ast.Name):
                    names.setdefault(n.id, []).append(n)
            for v, occ in names.items():
                loads = [n for n in occ if isinstance(n.ctx, ast.Load)]
                stores = [n for n in occ if isinstance(n.ctx, ast.Store)]
                if not loads or len(stores) != 1:
                    continue
                def is_field(n):
                    return isinstance(getattr(n, "_parent", None), ast.Attribute) and n._parent.value is n and isinstance(n._parent.ctx, ast.Load)

                def is_splat(n):
                    p_ = getattr(n, "_parent", None)
                    return isinstance(p_, ast.Starred) and isinstance(getattr(p_, "_parent", None), ast.Call) and p_ in p_._parent.args
                if not all(is_field(n) or is_splat(n) for n in loads):
                    continue
                used = {n._parent.attr for n in loads if is_field(n)}
                cands = [N for N, fields in usable.items() if used <= set(fields)]
                if len(cands) != 1 and not (len(usable) == 1 and not used):
                    # (a record that is only ever splatted: which type it is is known when the module has a single record type)
                    if len(cands) != 1:
                        continue
                if len(cands) != 1:
                    cands = list(usable)
                fields = usable[cands[0]]
                st = stores[0]
                par = getattr(st, "_parent", None)
                if not ((isinstance(par, (ast.For, ast.AsyncFor)) and par.target is st)
                        or (isinstance(par, ast.Assign) and len(par.targets) == 1 and par.targets[0] is st)):
                    continue
                tgt = ast.copy_location(ast.Tuple(elts=[ast.Name(id="%s__%s" % (v, f), ctx=ast.Store()) for f in fields], ctx=ast.Store()), st)
                if isinstance(par, ast.Assign):
                    par.targets[0] = tgt
                else:
                    par.target = tgt
                for n in [x for x in loads if is_splat(x)]:
                    star = n._parent
                    call = star._parent
                    k_ = call.args.index(star)
                    call.args[k_:k_ + 1] = [ast.copy_location(ast.Name(id="%s__%s" % (v, f), ctx=ast.Load()), star) for f in fields]
                for n in [x for x in loads if is_field(x)]:
                    a = n._parent
                    ap = getattr(a, "_parent", None)
                    new = ast.copy_location(ast.Name(id="%s__%s" % (v, a.attr), ctx=ast.Load()), a)
                    for field, val in ast.iter_fields(ap):
                        if val is a:
                            setattr(ap, field, new)
                        elif isinstance(val, list):
                            for q, x in enumerate(val):
                                if x is a:
                                    val[q] = new
                count[0] += 1
                _relink(mod, rel)
        if count[0]:
            _relink(mod, rel)
            done.append({"module": rel, "new_namedtuples_read_as_tuples": sorted(usable), "rewrites": count[0]})
    return done


def _body_dump(body):
    body = body[1:] if body and _is_doc(body[0]) and len(body) > 1 else body
    return [ast.dump(st) for st in body]


def restore_moved_methods(asts, ref):
    """A reference method C.m that vanished because it was moved, body unchanged,
    (A) to a module-level function f(obj, ...) of the same module (first parameter in the role of self), or
    (B) to another class D of the same module as D.f, reaching the C instance through one attribute (self.A.x for self.x)
    is put back: C.m is re-created from the moved body, calls f(obj, ..) become obj.m(..) / calls self.f(..) inside D become
    self.A.m(..), and the moved copy is removed.  Exact inverse of the move, hence behaviour-preserving."""
    from .canon import reference_function
    done = []
    if not ref:
        return done
    for rel, mod in asts.items():
        runits = ref.get(rel)
        if runits is None:
            continue
        units = _units(mod)
        changed = False
        for ks in sorted(runits):
            k = tuple(ks.split("|"))
            if k[0] != "meth" or k in units or ("cls", k[1]) not in units:
                continue
            rfn = reference_function(rel, k)
            if rfn is None or not rfn.args.args or rfn.args.args[0].arg != "self" or rfn.decorator_list:
                continue
            want = _body_dump(rfn.body)
            cnode = next(c for c in mod.body if isinstance(c, ast.ClassDef) and c.name == k[1])
            restored = None
            # (A) module-level function
            for f in [x for x in mod.body if isinstance(x, ast.FunctionDef) and ("fn", x.name) not in
                      {tuple(q.split("|")) for q in runits} and x.args.args and not x.decorator_list]:
                p0 = f.args.args[0].arg
                if len(f.args.args) != len(rfn.args.args) or any(isinstance(n, ast.Name) and n.id == "self" for n in ast.walk(f)):
                    continue
                cand = clone(f)
                for n in ast.walk(cand):
                    if isinstance(n, ast.Name) and n.id == p0:
                        n.id = "self"
                    elif isinstance(n, ast.arg) and n.arg == p0:
                        n.arg = "self"
                if _body_dump(cand.body) != want or [a.arg for a in cand.args.args] != [a.arg for a in rfn.args.args]:
                    continue
                cand.name = k[2]
                n_calls = 0
                for n in ast.walk(mod):
                    if isinstance(n, ast.Call) and isinstance(n.func, ast.Name) and n.func.id == f.name and n.args \
                            and not isinstance(n.args[0], ast.Starred):
                        n.func = ast.Attribute(value=n.args[0], attr=k[2], ctx=ast.Load())
                        n.args = n.args[1:]
                        n_calls += 1
                if any(isinstance(n, ast.Name) and n.id == f.name for n in ast.walk(mod) if n is not f):
                    # still referenced as a value somewhere (callback): keep a forwarding definition
                    pass
                else:
                    mod.body.remove(f)
                cnode.body.append(cand)
                restored = {"method_restored_from_function": "%s:%s.%s <- %s" % (rel, k[1], k[2], f.name), "calls_rewritten": n_calls}
                break
            # (B) method of another class, through one attribute
            if restored is None:
                for dnode in [c for c in mod.body if isinstance(c, ast.ClassDef) and c is not cnode]:
                    for f in [x for x in dnode.body if isinstance(x, ast.FunctionDef) and ("meth", dnode.name, x.name) not in
                              {tuple(q.split("|")) for q in runits} and x.args.args and x.args.args[0].arg == "self" and not x.decorator_list]:
                        if len(f.args.args) != len(rfn.args.args):
                            continue
                        attrs = {n.attr for n in ast.walk(f) if isinstance(n, ast.Attribute) and isinstance(n.value, ast.Name) and n.value.id == "self"}
                        for a in sorted(attrs):
                            # every use of self inside f goes through self.<a>
                            if any(isinstance(n, ast.Name) and n.id == "self" and not (isinstance(getattr(n, "_parent", None), ast.Attribute)
                                                                                         and n._parent.attr == a) for n in ast.walk(f) if not isinstance(n, ast.arg)):
                                continue

                            class Strip(ast.NodeTransformer):
                                def visit_Attribute(self, n):
                                    if isinstance(n.value, ast.Name) and n.value.id == "self" and n.attr == a:
                                        return ast.Name(id="self", ctx=ast.Load())
                                    return self.generic_visit(n)
                            cand = Strip().visit(clone(f))
                            if _body_dump(cand.body) != want or [x.arg for x in cand.args.args] != [x.arg for x in rfn.args.args]:
                                continue
                            cand.name = k[2]
                            n_calls = 0
                            for n in ast.walk(dnode):
                                if isinstance(n, ast.Call) and isinstance(n.func, ast.Attribute) and n.func.attr == f.name \
                                        and isinstance(n.func.value, ast.Name) and n.func.value.id == "self":
                                    n.func = ast.Attribute(value=ast.Attribute(value=ast.Name(id="self", ctx=ast.Load()), attr=a, ctx=ast.Load()),
                                                           attr=k[2], ctx=ast.Load())
                                    n_calls += 1
                            if not any(isinstance(n, ast.Attribute) and n.attr == f.name for n in ast.walk(mod)):
                                dnode.body.remove(f)
                            cnode.body.append(cand)
                            restored = {"method_restored_from_class": "%s:%s.%s <- %s.%s via self.%s" % (rel, k[1], k[2], dnode.name, f.name, a),
                                        "calls_rewritten": n_calls}
                            break
                        if restored:
                            break
                    if restored:
                        break
            if restored:
                changed = True
                done.append(restored)
                units = _units(mod)
        if changed:
            _relink(mod, rel)
    return done


def outline_vanished_helpers(asts, ref):
    from .canon import reference_function
    done = []
    if not ref:
        return done
    for rel, mod in asts.items():
        runits = ref.get(rel)
        if runits is None:
            continue
        units = _units(mod)
        changed = False
        for ks in sorted(runits):
            k = tuple(ks.split("|"))
            if k[0] not in ("meth", "fn") or k in units:
                continue
            if k[0] == "meth" and ("cls", k[1]) not in units:
                continue
            rfn = reference_function(rel, k)
            if rfn is None:
                continue
            for x_ in ast.walk(rfn):
                for ch_ in ast.iter_child_nodes(x_):
                    ch_._parent = x_
            if not _eligible(rfn):
                continue
            hname = k[-1]
            is_method = k[0] == "meth"
            params = [a.arg for a in rfn.args.args]
            if is_method and not _is_static(rfn):
                params = params[1:]
            star = rfn.args.vararg.arg if rfn.args.vararg else None
            body = rfn.body[1:] if rfn.body and _is_doc(rfn.body[0]) and len(rfn.body) > 1 else rfn.body
            rets = _returns(rfn)
            # `if C: return` + rest, pasted into a caller, reads `if not C: rest`
            if len(rets) == 1 and len(body) >= 2 and isinstance(body[0], ast.If) and not body[0].orelse and len(body[0].body) == 1 \
                    and body[0].body[0] is rets[0] and rets[0].value is None:
                t = body[0].test
                flip = {ast.NotIn: ast.In, ast.In: ast.NotIn, ast.Is: ast.IsNot, ast.IsNot: ast.Is, ast.Eq: ast.NotEq, ast.NotEq: ast.Eq,
                        ast.Lt: ast.GtE, ast.GtE: ast.Lt, ast.Gt: ast.LtE, ast.LtE: ast.Gt}
                if isinstance(t, ast.UnaryOp) and isinstance(t.op, ast.Not):
                    neg = t.operand
                elif isinstance(t, ast.Compare) and len(t.ops) == 1 and type(t.ops[0]) in flip:
                    neg = ast.Compare(left=t.left, ops=[flip[type(t.ops[0])]()], comparators=t.comparators)
                else:
                    neg = ast.UnaryOp(op=ast.Not(), operand=t)
                guard = ast.If(test=neg, body=body[1:], orelse=[])
                ast.copy_location(guard, body[0])
                ast.fix_missing_locations(guard)
                body = [guard]
                rets = []
            value_helper = False
            if rets:
                if len(rets) == 1 and rets[0] is body[-1] and rets[0].value is not None:
                    value_helper = True
                else:
                    continue
            locals_ = _stored_names(body) - set(params)
            # `x = E; return x`: the pasted copy ends with `x' = E` and goes on using x'
            result_local = None
            if value_helper and isinstance(body[-1].value, ast.Name) and body[-1].value.id in locals_ and len(body) >= 2 \
                    and isinstance(body[-2], ast.Assign) and len(body[-2].targets) == 1 and isinstance(body[-2].targets[0], ast.Name) \
                    and body[-2].targets[0].id == body[-1].value.id:
                result_local = body[-1].value.id
                body = body[:-1]
                value_helper = False
            if is_method:
                cnode = next(c for c in mod.body if isinstance(c, ast.ClassDef) and c.name == k[1])
                hosts = [m for m in cnode.body if isinstance(m, (ast.FunctionDef, ast.AsyncFunctionDef))]
            else:
                cnode = None
                hosts = [f for f in mod.body if isinstance(f, (ast.FunctionDef, ast.AsyncFunctionDef))] + \
                        [m for c in mod.body if isinstance(c, ast.ClassDef) for m in c.body if isinstance(m, (ast.FunctionDef, ast.AsyncFunctionDef))]
            n_sites = 0
            pset = set(params) | ({"*" + star} if star else set())
            for host in hosts:
                again = True
                while again:
                    again = False
                    for lst in _stmt_lists(host):
                        n = len(body)
                        for i in range(0, len(lst) - n + 1):
                            sigma, lam = {}, {}
                            run = lst[i:i + n]
                            ok = True
                            for rs, cs_ in zip(body[:-1] if value_helper else body, run[:-1] if value_helper else run):
                                if not _match(rs, cs_, pset, locals_, sigma, lam):
                                    ok = False
                                    break
                            target_kind = None
                            if ok and value_helper:
                                last = run[-1]
                                rv = body[-1].value
                                if isinstance(last, ast.Return) and last.value is not None and _match(rv, last.value, pset, locals_, sigma, lam):
                                    target_kind = ("return", None)
                                elif isinstance(last, ast.Assign) and len(last.targets) == 1 and _match(rv, last.value, pset, locals_, sigma, lam):
                                    target_kind = ("assign", last.targets[0])
                                elif isinstance(last, ast.Expr) and _match(rv, last.value, pset, locals_, sigma, lam):
                                    target_kind = ("expr", None)
                                else:
                                    ok = False
                            if not ok or any(p not in sigma for p in params) or (star and "*" + star not in sigma):
                                continue
                            # the helper's locals must not be used by the host outside the run
                            moved = set(lam.values()) - ({lam[result_local]} if result_local and result_local in lam else set())
                            outside = [x for j, st in enumerate(lst) if not (i <= j < i + n) for x in ast.walk(st)
                                       if isinstance(x, ast.Name) and x.id in moved]
                            if outside:
                                continue
                            recv = ast.Attribute(value=ast.Name(id="self", ctx=ast.Load()), attr=hname, ctx=ast.Load()) if is_method \
                                else ast.Name(id=hname, ctx=ast.Load())
                            call = ast.Call(func=recv, args=[clone(sigma[p]) for p in params]
                                            + ([clone(y) for y in sigma["*" + star]] if star else []), keywords=[])
                            if result_local is not None and result_local in lam:
                                new = ast.Assign(targets=[ast.Name(id=lam[result_local], ctx=ast.Store())], value=call)
                            elif not value_helper or target_kind[0] == "expr":
                                new = ast.Expr(value=call)
                            elif target_kind[0] == "return":
                                new = ast.Return(value=call)
                            else:
                                new = ast.Assign(targets=[target_kind[1]], value=call)
                            ast.copy_location(new, run[0])
                            ast.fix_missing_locations(new)
                            lst[i:i + n] = [new]
                            n_sites += 1
                            again = True
                            break
                        if again:
                            break
            if n_sites:
                (cnode.body if is_method else mod.body).append(rfn)
                changed = True
                done.append({"helper_restored": "%s:%s" % (rel, ".".join(k[1:])), "call_sites_restored": n_sites})
        if changed:
            _relink(mod, rel)
    return done


# ---------------------------------------------------------------------------------------------------------------------
# a dict used as a key set where the reference used a set:  self.x = {} ; self.x[k] = None ; del self.x[k] ;
# self.x.pop(k, None) ; k in self.x      ->      set() / add / remove / discard

def keyset_dicts_to_sets(asts, ref):
    from .canon import reference_function
    done = []
    if not ref:
        return done
    for rel, mod in asts.items():
        if rel not in ref:
            continue
        changed = False
        for c in mod.body:
            if not isinstance(c, ast.ClassDef):
                continue
            # attributes the reference constructor created as set()
            ref_sets = set()
            for ctor in ("__init__", "__attrs_post_init__", "_init_other_state"):
                rfn = reference_function(rel, ("meth", c.name, ctor))
                if rfn is None:
                    continue
                for n in ast.walk(rfn):
                    if isinstance(n, ast.Assign) and len(n.targets) == 1 and isinstance(n.targets[0], ast.Attribute) \
                            and isinstance(n.targets[0].value, ast.Name) and n.targets[0].value.id == "self" \
                            and isinstance(n.value, ast.Call) and isinstance(n.value.func, ast.Name) and n.value.func.id == "set" and not n.value.args:
                        ref_sets.add(n.targets[0].attr)
            for attr in sorted(ref_sets):
                def is_x(e):
                    return isinstance(e, ast.Attribute) and e.attr == attr and isinstance(e.value, ast.Name) and e.value.id == "self"
                inits, stores, dels, pops, bad = [], [], [], [], False
                for n in ast.walk(c):
                    par = getattr(n, "_parent", None)
                    if not is_x(n):
                        continue
                    if isinstance(par, ast.Assign) and n in par.targets:
                        v = par.value
                        if (isinstance(v, ast.Dict) and not v.keys) or (isinstance(v, ast.Call) and isinstance(v.func, ast.Name)
                                                                       and v.func.id == "dict" and not v.args and not v.keywords):
                            inits.append(par)
                        else:
                            bad = True
                    elif isinstance(par, ast.Subscript) and par.value is n:
                        gp = getattr(par, "_parent", None)
                        if isinstance(par.ctx, ast.Store) and isinstance(gp, ast.Assign) and len(gp.targets) == 1 and isinstance(gp.value, ast.Constant):
                            stores.append(gp)
                        elif isinstance(par.ctx, ast.Del) and isinstance(gp, ast.Delete) and len(gp.targets) == 1:
                            dels.append(gp)
                        else:
                            bad = True                       # a value is read: a real mapping
                    elif isinstance(par, ast.Attribute) and par.value is n:
                        gp = getattr(par, "_parent", None)
                        ggp = getattr(gp, "_parent", None)
                        if par.attr == "pop" and isinstance(gp, ast.Call) and isinstance(ggp, ast.Expr) and len(gp.args) in (1, 2):
                            pops.append(gp)
                        elif par.attr in ("get", "items", "values", "setdefault", "update", "popitem", "keys"):
                            bad = True
                if bad or not inits or not (stores or dels or pops):
                    continue
                for a in inits:
                    a.value = ast.Call(func=ast.Name(id="set", ctx=ast.Load()), args=[], keywords=[])
                    ast.fix_missing_locations(a)

                def replace_stmt(old, new):
                    for lst_owner in ast.walk(c):
                        for f in ("body", "orelse", "finalbody"):
                            lst = getattr(lst_owner, f, None)
                            if isinstance(lst, list) and old in lst:
                                ast.copy_location(new, old)
                                ast.fix_missing_locations(new)
                                lst[lst.index(old)] = new
                                return

                def call(meth, key):
                    return ast.Expr(value=ast.Call(func=ast.Attribute(value=ast.Attribute(value=ast.Name(id="self", ctx=ast.Load()), attr=attr, ctx=ast.Load()),
                                                                     attr=meth, ctx=ast.Load()), args=[key], keywords=[]))
                for s_ in stores:
                    replace_stmt(s_, call("add", _load(s_.targets[0].slice)))
                for d in dels:
                    replace_stmt(d, call("remove", _load(d.targets[0].slice)))
                for p in pops:
                    p.func.attr = "discard" if len(p.args) == 2 else "remove"
                    del p.args[1:]
                changed = True
                done.append({"class": "%s:%s" % (rel, c.name), "keyset_dict_to_set": attr})
        if changed:
            _relink(mod, rel)
    return done
